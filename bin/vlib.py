#!/usr/bin/env python3
"""Shared orchestration for /verif checks.

Pipeline (DESIGN.md 2.2):  TLC model run -> CASE lines -> vdrive (real typify)
-> NDJSON events -> TLC trace validation (contract monitor) -> verdicts.

Exit codes: 0 property held on everything explored (KNOWN-FINDING lines allowed),
1 at least one VIOLATION (line printed, replay file written), 2 tool error.
"""
import json, os, re, subprocess, sys, time, hashlib, shutil, concurrent.futures

VERIF = os.path.dirname(os.path.dirname(os.path.abspath(__file__)))
BUILD = os.path.join(VERIF, "build")
REPO = "/repo"
TLC = os.path.join(VERIF, "bin", "tlc.sh")
VDRIVE_DIR = os.path.join(VERIF, "harness", "vdrive")
VDRIVE_BIN = os.path.join(BUILD, "target-vdrive", "debug", "vdrive")
CARGO = ["cargo", "+1.80.1"]


class ToolError(Exception):
    pass


def log(*a):
    print(*a, file=sys.stderr, flush=True)


def env_offline():
    e = dict(os.environ)
    e["CARGO_NET_OFFLINE"] = "true"
    e.pop("RUSTFLAGS", None)
    return e


def sh(cmd, cwd=None, env=None, timeout=None, check=True, capture=True):
    t0 = time.time()
    try:
        p = subprocess.run(cmd, cwd=cwd, env=env or env_offline(), timeout=timeout,
                           stdout=subprocess.PIPE if capture else None,
                           stderr=subprocess.STDOUT if capture else None, text=True)
    except subprocess.TimeoutExpired:
        raise ToolError("timeout after %ss: %s" % (timeout, " ".join(cmd)[:200]))
    if check and p.returncode != 0:
        raise ToolError("command failed (%d): %s\n%s" % (p.returncode, " ".join(cmd)[:300],
                                                          (p.stdout or "")[-4000:]))
    return p.stdout or "", time.time() - t0


# ----------------------------------------------------------------- building

def ensure_lock(crate_dir):
    lock = os.path.join(crate_dir, "Cargo.lock")
    if not os.path.exists(lock):
        shutil.copy(os.path.join(REPO, "Cargo.lock"), lock)


def build_vdrive():
    """(Re)build the driver against /repo's current working tree, hooks on."""
    ensure_lock(VDRIVE_DIR)
    out, dt = sh(CARGO + ["build", "--offline"], cwd=VDRIVE_DIR, timeout=1500)
    if not os.path.exists(VDRIVE_BIN):
        raise ToolError("vdrive binary missing after build\n" + out[-2000:])
    return dt


# ---------------------------------------------------------------------- TLC

TLA_STR = re.compile(r'^<<"([A-Z-]+)", (".*")>>\s*$')


def parse_tlc_lines(text):
    """yield (kind, decoded json) for every <<"KIND", "json">> line."""
    for line in text.splitlines():
        if not line.startswith('<<"'):
            continue
        m = TLA_STR.match(line)
        if not m:
            continue
        try:
            payload = json.loads(json.loads(m.group(2)))
        except Exception as ex:  # pragma: no cover
            raise ToolError("cannot decode TLC line: %s (%s)" % (line[:300], ex))
        yield m.group(1), payload


def tlc_stats(text):
    st = {}
    m = re.search(r"(\d+) states generated, (\d+) distinct states found, (\d+) states left", text)
    if m:
        st["generated"] = int(m.group(1))
        st["distinct"] = int(m.group(2))
        st["left"] = int(m.group(3))
    m = re.search(r"depth of the complete state graph search is (\d+)", text)
    if m:
        st["depth"] = int(m.group(1))
    st["completed"] = "Model checking completed. No error has been found." in text
    return st


def tlc_failed(text):
    return ("Error:" in text) or ("*** Errors" in text) or ("Exception" in text and "Finished" not in text)


def run_mc(module, cfg, name, workers=8, timeout=1800, simulate=None, seed=None, heap="-Xmx8g"):
    """Run a model-checking (or simulation) config under /verif/mc; return (cases, stats, text)."""
    meta = os.path.join(BUILD, "tlc", name)
    shutil.rmtree(meta, ignore_errors=True)
    os.makedirs(meta, exist_ok=True)
    cmd = ["timeout", str(timeout), TLC, "-workers", str(workers), "-metadir", meta, "-cleanup",
           "-noGenerateSpecTE", "-config", cfg]
    if simulate:
        cmd += ["-simulate", simulate]
        if seed is not None:
            cmd += ["-seed", str(seed)]
    cmd += [module]
    env = env_offline()
    env["TLC_HEAP"] = heap
    out, dt = sh(cmd, cwd=os.path.join(VERIF, "mc"), env=env, check=False, timeout=timeout + 60)
    outp = os.path.join(BUILD, name + ".mc.out")
    with open(outp, "w") as f:
        f.write(out)
    st = tlc_stats(out)
    st["wall_s"] = round(dt, 1)
    if simulate:
        # simulation ends by num= limit; no completion banner
        if "Error:" in out and "The number of states generated" not in out and "states generated" not in out:
            raise ToolError("TLC simulation failed, see %s\n%s" % (outp, out[-1500:]))
    elif not st.get("completed"):
        raise ToolError("TLC model run did not complete, see %s\n%s" % (outp, out[-2500:]))
    cases = [p for k, p in parse_tlc_lines(out) if k == "CASE"]
    shutil.rmtree(meta, ignore_errors=True)
    return cases, st, out


def write_ndjson(path, rows):
    with open(path, "w") as f:
        for r in rows:
            f.write(json.dumps(r, separators=(",", ":")))
            f.write("\n")


def read_ndjson(path):
    with open(path) as f:
        return [json.loads(l) for l in f if l.strip()]


def run_trace_one(module, cfg, trace_path, name, timeout, heap="-Xmx3g", extra_env=None):
    meta = os.path.join(BUILD, "tlc", name)
    shutil.rmtree(meta, ignore_errors=True)
    os.makedirs(meta, exist_ok=True)
    env = env_offline()
    env["TRACE"] = trace_path
    env["TLC_DEQUE"] = "1"
    env["TLC_HEAP"] = heap
    if extra_env:
        env.update(extra_env)
    cmd = ["timeout", str(timeout), TLC, "-workers", "1", "-metadir", meta, "-cleanup",
           "-noGenerateSpecTE", "-config", cfg, module]
    out, dt = sh(cmd, cwd=os.path.join(VERIF, "spec"), env=env, check=False, timeout=timeout + 60)
    with open(os.path.join(BUILD, name + ".trace.out"), "w") as f:
        f.write(out)
    shutil.rmtree(meta, ignore_errors=True)
    return out, dt


def run_trace(module, cfg, events, name, shards=8, timeout=1500, key="case", extra_env=None):
    """Validate a recorded trace with TLC.  The trace is split at case
    boundaries into shards validated by concurrent TLC instances.  Returns
    (bad records, stats).  Every line must be consumed by the trace spec."""
    n = len(events)
    if n == 0:
        raise ToolError("empty trace for %s" % name)
    shards = max(1, min(shards, n // 200 + 1))
    # split at case boundaries
    bounds = [0]
    target = n / shards
    for i in range(1, n):
        if len(bounds) < shards and i >= target * len(bounds) and events[i].get(key) != events[i - 1].get(key):
            bounds.append(i)
    bounds.append(n)
    parts = []
    for si in range(len(bounds) - 1):
        a, b = bounds[si], bounds[si + 1]
        path = os.path.join(BUILD, "%s.trace.%d.ndjson" % (name, si))
        write_ndjson(path, events[a:b])
        parts.append((si, a, b, path))
    bad, stats = [], {"lines": 0, "states": 0, "generated": 0, "nself": 0, "shards": len(parts)}
    t0 = time.time()
    with concurrent.futures.ThreadPoolExecutor(max_workers=len(parts)) as ex:
        futs = {ex.submit(run_trace_one, module, cfg, p[3], "%s.%d" % (name, p[0]), timeout,
                          "-Xmx3g", extra_env): p for p in parts}
        for fu in concurrent.futures.as_completed(futs):
            si, a, b, path = futs[fu]
            out, dt = fu.result()
            st = tlc_stats(out)
            end = [p for k, p in parse_tlc_lines(out) if k == "TRACE-END"]
            tstats = [p for k, p in parse_tlc_lines(out) if k == "TRACE-STATS"]
            if not st.get("completed") or not tstats:
                raise ToolError("trace validation did not complete for shard %d of %s, see %s\n%s"
                                % (si, name, os.path.join(BUILD, "%s.%d.trace.out" % (name, si)), out[-3000:]))
            ts = tstats[-1]
            if ts["lines"] != b - a:
                raise ToolError("trace shard %d: TLC read %d lines, expected %d" % (si, ts["lines"], b - a))
            if not end or max(e["l"] for e in end) != ts["lines"] + 1:
                raise ToolError("trace shard %d of %s: not every line was consumed (%s)" % (si, name, end[-1:]))
            stats["lines"] += ts["lines"]
            stats["states"] += ts["distinct"]
            stats["generated"] += ts["generated"]
            stats["nself"] += max(e.get("nself", 0) for e in end)
            for k, p in parse_tlc_lines(out):
                if k == "BAD":
                    p["l"] = p["l"] + a  # global (1-based) line number
                    bad.append(p)
            os.remove(path)
    stats["wall_s"] = round(time.time() - t0, 1)
    bad.sort(key=lambda r: r["l"])
    return bad, stats


# ------------------------------------------------------------------ verdicts

def load_known():
    with open(os.path.join(VERIF, "known_findings.json")) as f:
        return json.load(f)


def finish(prop, tier, seed, t0, bad, events, cases, mc_stats, trace_stats, coverage_extra,
           assumptions, replay_of, sample_cases=3, level="model_checking"):
    """Classify rejected events, print verdict lines, write evidence, return exit code."""
    known = load_known()
    open_ids = {f["id"]: f for f in known.get("findings", []) if f["property"] == prop}
    kf_hits, violations = {}, []
    for b in bad:
        ids = [k for k in b.get("known", []) if k in open_ids]
        if ids:
            for k in ids[:1]:
                kf_hits.setdefault(k, []).append(b)
        else:
            violations.append(b)
    for k, hits in sorted(kf_hits.items()):
        f = open_ids[k]
        print("KNOWN-FINDING: property=%s %s [%s; %d event(s) this run, e.g. case %s]"
              % (prop, f["what"], k, len(hits), hits[0].get("case")), flush=True)
    rdir = os.path.join(BUILD, "replays", prop)
    shutil.rmtree(rdir, ignore_errors=True)
    os.makedirs(rdir, exist_ok=True)
    shown = 0
    by_diag = {}
    for v in violations:
        by_diag.setdefault(v.get("diag", "?"), []).append(v)
    for diag, vs in sorted(by_diag.items()):
        for v in vs[:10]:
            path = os.path.join(rdir, "%s_case%s_l%s.json" % (diag.replace("/", "_"), v.get("case"), v["l"]))
            with open(path, "w") as f:
                json.dump(replay_of(v), f, indent=1)
            print("VIOLATION property=%s replay=%s" % (prop, path), flush=True)
            print("  diagnosis: %s %s" % (diag, json.dumps({k: v[k] for k in v if k not in ("known",)})[:400]), flush=True)
            shown += 1
        if len(vs) > 10:
            print("  (+%d more violations with diagnosis %s)" % (len(vs) - 10, diag), flush=True)
    ncases = len(cases)
    cov = {
        "states": int(mc_stats.get("distinct", 0)) + int(trace_stats.get("states", 0)),
        "transitions": int(mc_stats.get("generated", 0)) + int(trace_stats.get("generated", 0)),
        "traces_validated_against_impl": ncases,
        "samples": [cases[i] for i in sorted(set([0, ncases // 2, ncases - 1]))][:sample_cases] if ncases else [],
        "evaluations": ncases,
        "events_validated": int(trace_stats.get("lines", 0)),
        "mc": mc_stats,
        "trace": trace_stats,
        "rejected_events": len(bad),
        "known_finding_events": {k: len(v) for k, v in kf_hits.items()},
        "oracle_selfcheck_disagreements": int(trace_stats.get("nself", 0)),
        "checker_cmd": "bin/check %s --tier %s" % (prop, tier),
        "trusted_base": ["TLC 2.x (tla2tools 1.8.0)", "SANY", "rustc 1.80.1", "serde/serde_json", "syn",
                         "/verif/harness/vdrive", "/verif/bin/vlib.py"],
    }
    cov.update(coverage_extra or {})
    ev = {
        "property_id": prop, "tier": tier, "seed": int(seed), "level": level,
        "coverage": cov, "assumptions": assumptions,
        "wall_s": round(time.time() - t0, 1), "violations": len(violations),
    }
    os.makedirs(os.path.join(VERIF, "evidence"), exist_ok=True)
    with open(os.path.join(VERIF, "evidence", prop + ".json"), "w") as f:
        json.dump(ev, f, indent=1)
    if trace_stats.get("nself", 0):
        raise ToolError("oracle self-check disagreement (%d) - verdicts not trusted" % trace_stats["nself"])
    return 1 if violations else 0


def main_wrapper(fn):
    try:
        rc = fn()
    except ToolError as e:
        print("TOOL-ERROR: %s" % e, file=sys.stderr, flush=True)
        sys.exit(2)
    sys.exit(rc)
