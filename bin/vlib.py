#!/usr/bin/env python3
"""Shared orchestration for /verif checks.

Pipeline (DESIGN.md 2.2):  TLC model run -> CASE lines -> vdrive (real typify)
-> NDJSON events -> TLC trace validation (contract monitor) -> verdicts.

Exit codes: 0 property held on everything explored (KNOWN-FINDING lines allowed),
1 at least one VIOLATION (line printed, replay file written), 2 tool error.
"""
import json, os, re, subprocess, sys, time, hashlib, shutil, concurrent.futures

VERIF = os.path.dirname(os.path.dirname(os.path.abspath(__file__)))
BUILD = os.path.join(VERIF, "build")
REPO = "/repo"
TLC = os.path.join(VERIF, "bin", "tlc.sh")
VDRIVE_DIR = os.path.join(VERIF, "harness", "vdrive")
VDRIVE_BIN = os.path.join(BUILD, "target-vdrive", "debug", "vdrive")
CARGO = ["cargo", "+1.80.1"]


class ToolError(Exception):
    pass


def log(*a):
    print(*a, file=sys.stderr, flush=True)


def env_offline():
    e = dict(os.environ)
    e["CARGO_NET_OFFLINE"] = "true"
    e["VERIF_HOME"] = VERIF
    e.pop("RUSTFLAGS", None)
    return e


def sh(cmd, cwd=None, env=None, timeout=None, check=True, capture=True):
    t0 = time.time()
    try:
        p = subprocess.run(cmd, cwd=cwd, env=env or env_offline(), timeout=timeout,
                           stdout=subprocess.PIPE if capture else None,
                           stderr=subprocess.STDOUT if capture else None, text=True)
    except subprocess.TimeoutExpired:
        raise ToolError("timeout after %ss: %s" % (timeout, " ".join(cmd)[:200]))
    if check and p.returncode != 0:
        raise ToolError("command failed (%d): %s\n%s" % (p.returncode, " ".join(cmd)[:300],
                                                          (p.stdout or "")[-4000:]))
    return p.stdout or "", time.time() - t0


# ----------------------------------------------------------------- building

def ensure_lock(crate_dir):
    lock = os.path.join(crate_dir, "Cargo.lock")
    if not os.path.exists(lock):
        shutil.copy(os.path.join(REPO, "Cargo.lock"), lock)


def build_vdrive():
    """(Re)build the driver against /repo's current working tree, hooks on."""
    ensure_lock(VDRIVE_DIR)
    out, dt = sh(CARGO + ["build", "--offline"], cwd=VDRIVE_DIR, timeout=1500)
    if not os.path.exists(VDRIVE_BIN):
        raise ToolError("vdrive binary missing after build\n" + out[-2000:])
    return dt


# ---------------------------------------------------------------------- TLC

TLA_STR = re.compile(r'^<<"([A-Z-]+)", (".*")>>\s*$')


def parse_tlc_lines(text):
    """yield (kind, decoded json) for every <<"KIND", "json">> line."""
    for line in text.splitlines():
        if not line.startswith('<<"'):
            continue
        m = TLA_STR.match(line)
        if not m:
            continue
        try:
            payload = json.loads(json.loads(m.group(2)))
        except Exception as ex:  # pragma: no cover
            raise ToolError("cannot decode TLC line: %s (%s)" % (line[:300], ex))
        yield m.group(1), payload


def tlc_stats(text):
    st = {}
    m = re.search(r"(\d+) states generated, (\d+) distinct states found, (\d+) states left", text)
    if m:
        st["generated"] = int(m.group(1))
        st["distinct"] = int(m.group(2))
        st["left"] = int(m.group(3))
    m = re.search(r"depth of the complete state graph search is (\d+)", text)
    if m:
        st["depth"] = int(m.group(1))
    st["completed"] = "Model checking completed. No error has been found." in text
    return st


def tlc_failed(text):
    return ("Error:" in text) or ("*** Errors" in text) or ("Exception" in text and "Finished" not in text)


def run_mc(module, cfg, name, workers=8, timeout=1800, simulate=None, seed=None, heap="-Xmx8g"):
    """Run a model-checking (or simulation) config under /verif/mc; return (cases, stats, text)."""
    meta = os.path.join(BUILD, "tlc", name)
    shutil.rmtree(meta, ignore_errors=True)
    os.makedirs(meta, exist_ok=True)
    cmd = ["timeout", str(timeout), TLC, "-workers", str(workers), "-metadir", meta, "-cleanup",
           "-noGenerateSpecTE", "-config", cfg]
    if simulate:
        cmd += ["-simulate", simulate]
        if seed is not None:
            cmd += ["-seed", str(seed)]
    cmd += [module]
    env = env_offline()
    env["TLC_HEAP"] = heap
    out, dt = sh(cmd, cwd=os.path.join(VERIF, "mc"), env=env, check=False, timeout=timeout + 60)
    outp = os.path.join(BUILD, name + ".mc.out")
    with open(outp, "w") as f:
        f.write(out)
    st = tlc_stats(out)
    st["wall_s"] = round(dt, 1)
    if simulate:
        # simulation ends by num= limit; no completion banner
        if "Error:" in out and "The number of states generated" not in out and "states generated" not in out:
            raise ToolError("TLC simulation failed, see %s\n%s" % (outp, out[-1500:]))
    elif not st.get("completed"):
        raise ToolError("TLC model run did not complete, see %s\n%s" % (outp, out[-2500:]))
    cases = [p for k, p in parse_tlc_lines(out) if k == "CASE"]
    shutil.rmtree(meta, ignore_errors=True)
    return cases, st, out


def write_ndjson(path, rows):
    with open(path, "w") as f:
        for r in rows:
            f.write(json.dumps(r, separators=(",", ":")))
            f.write("\n")


def read_ndjson(path):
    with open(path) as f:
        return [json.loads(l) for l in f if l.strip()]


def run_trace_one(module, cfg, trace_path, name, timeout, heap="-Xmx3g", extra_env=None):
    meta = os.path.join(BUILD, "tlc", name)
    shutil.rmtree(meta, ignore_errors=True)
    os.makedirs(meta, exist_ok=True)
    env = env_offline()
    env["TRACE"] = trace_path
    env["TLC_DEQUE"] = "1"
    env["TLC_HEAP"] = heap
    if extra_env:
        env.update(extra_env)
    cmd = ["timeout", str(timeout), TLC, "-workers", "1", "-metadir", meta, "-cleanup",
           "-noGenerateSpecTE", "-config", cfg, module]
    out, dt = sh(cmd, cwd=os.path.join(VERIF, "spec"), env=env, check=False, timeout=timeout + 60)
    with open(os.path.join(BUILD, name + ".trace.out"), "w") as f:
        f.write(out)
    shutil.rmtree(meta, ignore_errors=True)
    return out, dt


def run_trace(module, cfg, events, name, shards=8, timeout=1500, key="case", extra_env=None):
    """Validate a recorded trace with TLC.  The trace is split at case
    boundaries into shards validated by concurrent TLC instances.  Returns
    (bad records, stats).  Every line must be consumed by the trace spec."""
    n = len(events)
    if n == 0:
        raise ToolError("empty trace for %s" % name)
    shards = max(1, min(shards, n // 200 + 1))
    # split at case boundaries
    bounds = [0]
    target = n / shards
    for i in range(1, n):
        if len(bounds) < shards and i >= target * len(bounds) and events[i].get(key) != events[i - 1].get(key):
            bounds.append(i)
    bounds.append(n)
    parts = []
    for si in range(len(bounds) - 1):
        a, b = bounds[si], bounds[si + 1]
        path = os.path.join(BUILD, "%s.trace.%d.ndjson" % (name, si))
        write_ndjson(path, events[a:b])
        parts.append((si, a, b, path))
    bad, stats = [], {"lines": 0, "states": 0, "generated": 0, "nself": 0, "shards": len(parts)}
    t0 = time.time()
    with concurrent.futures.ThreadPoolExecutor(max_workers=len(parts)) as ex:
        futs = {ex.submit(run_trace_one, module, cfg, p[3], "%s.%d" % (name, p[0]), timeout,
                          "-Xmx3g", extra_env): p for p in parts}
        for fu in concurrent.futures.as_completed(futs):
            si, a, b, path = futs[fu]
            out, dt = fu.result()
            st = tlc_stats(out)
            end = [p for k, p in parse_tlc_lines(out) if k == "TRACE-END"]
            tstats = [p for k, p in parse_tlc_lines(out) if k == "TRACE-STATS"]
            if not st.get("completed") or not tstats:
                raise ToolError("trace validation did not complete for shard %d of %s, see %s\n%s"
                                % (si, name, os.path.join(BUILD, "%s.%d.trace.out" % (name, si)), out[-3000:]))
            ts = tstats[-1]
            if ts["lines"] != b - a:
                raise ToolError("trace shard %d: TLC read %d lines, expected %d" % (si, ts["lines"], b - a))
            if not end or max(e["l"] for e in end) != ts["lines"] + 1:
                raise ToolError("trace shard %d of %s: not every line was consumed (%s)" % (si, name, end[-1:]))
            stats["lines"] += ts["lines"]
            stats["states"] += ts["distinct"]
            stats["generated"] += ts["generated"]
            stats["nself"] += max(e.get("nself", 0) for e in end)
            for k, p in parse_tlc_lines(out):
                if k == "BAD":
                    p["l"] = p["l"] + a  # global (1-based) line number
                    bad.append(p)
                elif k == "DIVERGE":
                    p["l"] = p["l"] + a
                    stats.setdefault("diverge", []).append(p)
            os.remove(path)
    stats["wall_s"] = round(time.time() - t0, 1)
    bad.sort(key=lambda r: r["l"])
    return bad, stats



def gen_cases(seed, num, name="GEN", procs=8):
    """Random documents of the faithful fragment: behaviours of the SchemaGen machine under
    `tlc -simulate`, one CASE per finished document, duplicates removed.  The run is split over
    `procs` single-worker TLC processes with seeds derived from `seed`, so that the set of
    documents is a function of (seed, num) alone."""
    per = max(1, num // procs)
    cases, stats = [], {"generated": 0, "distinct": 0, "wall_s": 0.0, "seeds": []}
    t0 = time.time()
    with concurrent.futures.ThreadPoolExecutor(max_workers=procs) as ex:
        futs = [ex.submit(run_mc, "MC_Gen.tla", "Gen_sim.cfg", "%s.%d" % (name, k), 1, 3000,
                          "num=%d" % per, seed * 1000 + k, "-Xmx3g") for k in range(procs)]
        for k, fu in enumerate(futs):
            cs, st, _ = fu.result()
            cases += cs
            stats["generated"] += int(st.get("generated", 0))
            stats["seeds"].append(seed * 1000 + k)
    seen, uniq = set(), []
    for c in cases:
        k = json.dumps(c["calls"], sort_keys=True)
        if k not in seen:
            seen.add(k)
            uniq.append(c)
    stats["wall_s"] = round(time.time() - t0, 1)
    stats["behaviours"] = per * procs
    stats["documents"] = len(uniq)
    return uniq, stats


# ------------------------------------------------------------------ verdicts

def load_known():
    with open(os.path.join(VERIF, "known_findings.json")) as f:
        return json.load(f)


def finish(prop, tier, seed, t0, bad, events, cases, mc_stats, trace_stats, coverage_extra,
           assumptions, replay_of, sample_cases=3, level="model_checking"):
    """Classify rejected events, print verdict lines, write evidence, return exit code."""
    known = load_known()
    open_ids = {f["id"]: f for f in known.get("findings", []) if f["property"] == prop}
    kf_hits, violations = {}, []
    for b in bad:
        ids = [k for k in b.get("known", []) if k in open_ids]
        if ids:
            for k in ids[:1]:
                kf_hits.setdefault(k, []).append(b)
        else:
            violations.append(b)
    for k, hits in sorted(kf_hits.items()):
        f = open_ids[k]
        print("KNOWN-FINDING: property=%s %s [%s; %d event(s) this run, e.g. case %s]"
              % (prop, f["what"], k, len(hits), hits[0].get("case")), flush=True)
    for k in sorted(set(open_ids) - set(kf_hits)):
        print("NOTE: listed finding %s of %s was not observed in this run (tier %s)" % (k, prop, tier),
              file=sys.stderr, flush=True)
    rdir = os.path.join(BUILD, "replays", prop)
    shutil.rmtree(rdir, ignore_errors=True)
    os.makedirs(rdir, exist_ok=True)
    shown = 0
    by_diag = {}
    for v in violations:
        by_diag.setdefault(v.get("diag", "?"), []).append(v)
    for diag, vs in sorted(by_diag.items()):
        for v in vs[:10]:
            path = os.path.join(rdir, "%s_case%s_l%s.json" % (diag.replace("/", "_"), v.get("case"), v["l"]))
            with open(path, "w") as f:
                json.dump(replay_of(v), f, indent=1)
            print("VIOLATION property=%s replay=%s" % (prop, path), flush=True)
            print("  diagnosis: %s %s" % (diag, json.dumps({k: v[k] for k in v if k not in ("known",)})[:400]), flush=True)
            shown += 1
        if len(vs) > 10:
            print("  (+%d more violations with diagnosis %s)" % (len(vs) - 10, diag), flush=True)
    ncases = len(cases)
    cov = {
        "states": int(mc_stats.get("distinct", 0)) + int(trace_stats.get("states", 0)),
        "transitions": int(mc_stats.get("generated", 0)) + int(trace_stats.get("generated", 0)),
        "traces_validated_against_impl": ncases,
        "samples": [cases[i] for i in sorted(set([0, ncases // 2, ncases - 1]))][:sample_cases] if ncases else [],
        "evaluations": ncases,
        "events_validated": int(trace_stats.get("lines", 0)),
        "mc": mc_stats,
        "trace": trace_stats,
        "rejected_events": len(bad),
        "known_finding_events": {k: len(v) for k, v in kf_hits.items()},
        "oracle_selfcheck_disagreements": int(trace_stats.get("nself", 0)),
        "checker_cmd": "bin/check %s --tier %s" % (prop, tier),
        "trusted_base": ["TLC 2.x (tla2tools 1.8.0)", "SANY", "rustc 1.80.1", "serde/serde_json", "syn",
                         "/verif/harness/vdrive", "/verif/bin/vlib.py"],
    }
    cov.update(coverage_extra or {})
    ev = {
        "property_id": prop, "tier": tier, "seed": int(seed), "level": level,
        "coverage": cov, "assumptions": assumptions,
        "wall_s": round(time.time() - t0, 1), "violations": len(violations),
    }
    os.makedirs(os.path.join(VERIF, "evidence"), exist_ok=True)
    with open(os.path.join(VERIF, "evidence", prop + ".json"), "w") as f:
        json.dump(ev, f, indent=1)
    if trace_stats.get("nself", 0):
        raise ToolError("oracle self-check disagreement (%d) - verdicts not trusted" % trace_stats["nself"])
    return 1 if violations else 0


def main_wrapper(fn):
    """Exit codes: 0 held, 1 VIOLATION (only ever with a VIOLATION line), 2 tool error.
    Checks share build/ (vdrive, generated crates, TLC scratch): one check at a time holds
    build/.lock, so that concurrent invocations queue up instead of clobbering each other."""
    import fcntl, traceback
    os.makedirs(BUILD, exist_ok=True)
    lock = open(os.path.join(BUILD, ".lock"), "w")
    fcntl.flock(lock, fcntl.LOCK_EX)
    try:
        rc = fn()
    except ToolError as e:
        print("TOOL-ERROR: %s" % e, file=sys.stderr, flush=True)
        sys.exit(2)
    except SystemExit:
        raise
    except BaseException:
        print("TOOL-ERROR: unexpected exception\n%s" % traceback.format_exc(), file=sys.stderr, flush=True)
        sys.exit(2)
    finally:
        fcntl.flock(lock, fcntl.LOCK_UN)
    sys.exit(rc)


# ------------------------------------------------------- generated-code crates

GEN_TARGET = os.path.join(BUILD, "gen-target")


def _write_main(sdir, cases):
    lines = ["#![allow(warnings)]", "mod support;"]
    for c in cases:
        lines.append('#[path = "m%d/mod.rs"] mod m%d;' % (c, c))
    lines.append("fn main() {")
    lines.append("    std::panic::set_hook(Box::new(|_| {}));")
    for c in cases:
        lines.append("    m%d::probes::run();" % c)
    lines.append("}")
    with open(os.path.join(sdir, "src", "main.rs"), "w") as f:
        f.write("\n".join(lines) + "\n")


def gen_build_run(gen_dir, nshards, timeout=3000, jobs=None):
    """Build the sharded generated crates, attributing compile errors to cases
    (by the file of the primary span), rebuilding without the failing cases /
    failing bound assertions until the rest compiles; then run every shard.
    Returns (compile_events, runtime_events, stats)."""
    shutil.copy(os.path.join(REPO, "Cargo.lock"), os.path.join(gen_dir, "Cargo.lock"))
    active = {}
    for k in range(nshards):
        sdir = os.path.join(gen_dir, "s%d" % k)
        active[k] = list(json.load(open(os.path.join(sdir, "cases.json"))))
    all_cases = sorted(c for k in active for c in active[k])
    failed = {}        # case -> {"part":..., "codes": [...], "msg": ...}
    bound_failed = {}  # case -> set(k)
    env = env_offline()
    env["CARGO_TARGET_DIR"] = GEN_TARGET
    passes = 0
    t0 = time.time()
    pat = re.compile(r"s(\d+)/src/m(\d+)/([A-Za-z0-9_]+)\.rs$")
    while True:
        passes += 1
        if passes > 8:
            raise ToolError("generated crates still fail to build after 8 passes")
        for k in active:
            _write_main(os.path.join(gen_dir, "s%d" % k), active[k])
        cmd = CARGO + ["build", "--offline", "--message-format=json", "--keep-going"]
        if jobs:
            cmd += ["-j", str(jobs)]
        p = subprocess.run(cmd, cwd=gen_dir, env=env, stdout=subprocess.PIPE, stderr=subprocess.PIPE,
                           text=True, timeout=timeout)
        new_fail, unattributed = False, []
        for line in p.stdout.splitlines():
            if not line.startswith("{"):
                continue
            try:
                m = json.loads(line)
            except Exception:
                continue
            if m.get("reason") != "compiler-message":
                continue
            msg = m["message"]
            if msg.get("level") != "error":
                continue
            spans = [s for s in msg.get("spans", []) if s.get("is_primary")] or msg.get("spans", [])
            code = (msg.get("code") or {}).get("code") or "E????"
            if not spans:
                if "aborting due to" in msg.get("message", ""):
                    continue
                unattributed.append(msg.get("message", "")[:300])
                continue
            fn = spans[0]["file_name"].replace("\\", "/")
            # macro expansions point into the defining file through expansion
            mm = pat.search(fn)
            if not mm:
                sp = spans[0]
                while sp.get("expansion") and not mm:
                    sp = sp["expansion"]["span"]
                    mm = pat.search(sp["file_name"].replace("\\", "/"))
            if not mm:
                unattributed.append("%s: %s" % (fn, msg.get("message", "")[:300]))
                continue
            case, part = int(mm.group(2)), mm.group(3)
            if part == "bounds":
                ln = spans[0]["line_start"]
                src = open(os.path.join(gen_dir, "s%s" % mm.group(1), "src", "m%d" % case, "bounds.rs")).read().splitlines()
                mk = re.match(r"fn b(\d+)\(\)", src[ln - 1]) if ln - 1 < len(src) else None
                if not mk:
                    unattributed.append("bounds line %d of case %d: %s" % (ln, case, msg.get("message", "")[:200]))
                    continue
                bound_failed.setdefault(case, set()).add(int(mk.group(1)))
                new_fail = True
            else:
                part = "probes" if part == "probes" else "g"
                f = failed.setdefault(case, {"part": part, "codes": [], "msg": msg.get("message", "")[:300]})
                if part == "g":
                    f["part"] = "g"
                if code not in f["codes"]:
                    f["codes"].append(code)
                new_fail = True
        if unattributed and not new_fail:
            raise ToolError("compile errors that cannot be attributed to a case:\n" + "\n".join(unattributed[:10]))
        if p.returncode == 0 and not new_fail:
            break
        if p.returncode != 0 and not new_fail:
            raise ToolError("cargo build failed without attributable errors:\n" + p.stderr[-3000:])
        # drop failing cases, comment out failing assertions
        for k in active:
            active[k] = [c for c in active[k] if c not in failed]
        for case, ks in bound_failed.items():
            for k in range(nshards):
                bp = os.path.join(gen_dir, "s%d" % k, "src", "m%d" % case, "bounds.rs")
                if os.path.exists(bp):
                    src = open(bp).read().splitlines()
                    src = [("// FAILED " + l) if any(l.startswith("fn b%d()" % kk) for kk in ks) else l for l in src]
                    open(bp, "w").write("\n".join(src) + "\n")
    build_s = time.time() - t0
    compile_events = []
    for c in all_cases:
        if c in failed:
            compile_events.append({"ev": "compile", "case": c, "res": "err", "part": failed[c]["part"],
                                   "codes": failed[c]["codes"], "msg": failed[c]["msg"]})
        else:
            compile_events.append({"ev": "compile", "case": c, "res": "ok", "part": "", "codes": [], "msg": ""})
        compile_events.append({"ev": "bounds", "case": c, "failed": sorted(bound_failed.get(c, []))})
    runtime = []
    for k in range(nshards):
        exe = os.path.join(GEN_TARGET, "debug", "s%d" % k)
        if not active[k]:
            continue
        p = subprocess.run([exe], stdout=subprocess.PIPE, stderr=subprocess.PIPE, text=True, timeout=600)
        if p.returncode != 0:
            raise ToolError("generated probe binary s%d exited with %d: %s" % (k, p.returncode, p.stderr[-1000:]))
        for line in p.stdout.splitlines():
            if line.startswith("{"):
                runtime.append(json.loads(line))
    return compile_events, runtime, {"build_s": round(build_s, 1), "passes": passes,
                                     "modules": len(all_cases), "modules_failed": len(failed)}


def merge_events(api_events, compile_events, runtime_events):
    """one trace, ordered by case; within a case: API events, compile, runtime"""
    by = {}
    for src in (api_events, compile_events, runtime_events):
        for e in src:
            by.setdefault(e["case"], []).append(e)
    out = []
    for c in sorted(by):
        evs = by[c]
        end = [e for e in evs if e["ev"] == "endcase"]
        rest = [e for e in evs if e["ev"] != "endcase"]
        out.extend(rest)
        out.extend(end)
    return out


def extract_flag(cases, drop=("valid", "declared")):
    return cases


def tree_digest(extra=()):
    """digest of every source file the pipeline result depends on: /repo's working
    tree (not the commit id), the harness, and the given extra blobs"""
    h = hashlib.sha256()
    roots = [os.path.join(REPO, d) for d in ("typify-impl", "typify", "typify-macro", "cargo-typify")]
    roots += [os.path.join(VERIF, "harness"), os.path.join(VERIF, "bin", "vlib.py")]
    files = [os.path.join(REPO, "Cargo.lock"), os.path.join(REPO, "Cargo.toml")]
    for r in roots:
        if os.path.isfile(r):
            files.append(r)
            continue
        for dp, dn, fn in os.walk(r):
            dn[:] = [d for d in dn if d not in ("target", ".git")]
            for f in fn:
                files.append(os.path.join(dp, f))
    for f in sorted(files):
        h.update(f.encode())
        try:
            h.update(open(f, "rb").read())
        except OSError:
            pass
    for e in extra:
        h.update(e if isinstance(e, bytes) else str(e).encode())
    return h.hexdigest()[:32]


def run_gen_pipeline(prop, family, cases, nshards=8, timeout=3000):
    """cases -> vdrive gen -> build/run generated crates -> merged events.
    The result is cached under build/cache keyed by a digest of /repo's working tree,
    the harness and the cases: a hit is what a rebuild would produce, a changed tree
    never hits (several properties share one document pipeline)."""
    key = tree_digest([family, json.dumps(cases, sort_keys=True)])
    cdir = os.path.join(BUILD, "cache")
    os.makedirs(cdir, exist_ok=True)
    cpath_cache = os.path.join(cdir, key + ".json")
    if os.path.exists(cpath_cache) and os.environ.get("VERIF_NO_CACHE") != "1":
        d = json.load(open(cpath_cache))
        d["stats"]["cache_hit"] = True
        return d["events"], d["stats"]
    events, st = _run_gen_pipeline(prop, family, cases, nshards, timeout)
    # keep the cache small: at most 12 entries
    old = sorted((os.path.getmtime(os.path.join(cdir, f)), f) for f in os.listdir(cdir))
    for _, f in old[:-11]:
        os.remove(os.path.join(cdir, f))
    with open(cpath_cache, "w") as f:
        json.dump({"events": events, "stats": st}, f)
    return events, st


def _run_gen_pipeline(prop, family, cases, nshards=8, timeout=3000):
    # rustc needs roughly 20-25 MB per generated module: keep a shard at 120 modules or fewer
    # (about 3 GB per rustc) and at most 12 rustc at a time when there are many shards
    nshards = max(nshards, -(-len(cases) // 120))
    jobs = None if nshards <= 16 else 12
    cpath = os.path.join(BUILD, "%s.cases.ndjson" % prop)
    apath = os.path.join(BUILD, "%s.api.ndjson" % prop)
    gdir = os.path.join(BUILD, "gen", prop)
    write_ndjson(cpath, cases)
    sh([VDRIVE_BIN, "gen", cpath, apath, family, gdir, str(nshards)], timeout=timeout)
    api = read_ndjson(apath)
    ce, rt, st = gen_build_run(gdir, nshards, timeout=timeout, jobs=jobs)
    events = merge_events(api, ce, rt)
    return events, st


# ------------------------------------------------ oracle self-check (jsonschema)

INT_RANGES = {"int8": (-2**7, 2**7 - 1), "uint8": (0, 2**8 - 1), "int16": (-2**15, 2**15 - 1),
              "uint16": (0, 2**16 - 1), "int": (-2**31, 2**31 - 1), "int32": (-2**31, 2**31 - 1),
              "uint": (0, 2**32 - 1), "uint32": (0, 2**32 - 1), "int64": (-2**63, 2**63 - 1),
              "uint64": (0, 2**64 - 1)}
ANCHOR = {"i64min": -2**63, "i32min": -2**31, "i16min": -2**15, "i8min": -2**7, "zero": 0, "i8max": 2**7 - 1,
          "u8max": 2**8 - 1, "i16max": 2**15 - 1, "u16max": 2**16 - 1, "i32max": 2**31 - 1, "u32max": 2**32 - 1,
          "i64max": 2**63 - 1, "u64max": 2**64 - 1}


STR_SAMPLES = {"uuid": ["00000000-0000-0000-0000-000000000001"], "date": ["2020-01-02"],
               "date-time": ["2020-01-02T03:04:05Z"], "ip": ["1.2.3.4", "::1"], "ipv4": ["1.2.3.4"], "ipv6": ["::1"]}


def tok_char(t):
    if t.startswith("<") and t.endswith(">") and len(t) > 2:
        return chr(int(t[1:-1], 16))
    return t


def untag(v):
    t = v["t"]
    if t == "null":
        return None
    if t == "bool":
        return v["v"]
    if t == "int":
        return v["v"]
    if t == "big":
        return ANCHOR[v["p"]["a"]] + v["p"]["o"]
    if t == "num":
        return v["h"] / 2.0
    if t == "str":
        return "".join(tok_char(c) for c in v["c"])
    if t == "arr":
        return [untag(x) for x in v["v"]]
    if t == "obj":
        return {k: untag(x) for k, x in zip(v["k"], v["v"])}
    raise ToolError("untag: %r" % v)


def concrete_schema(s):
    """abstract schema (as printed by ToJson) -> JSON Schema for the Python oracle, with
    recognised integer formats turned into range keywords"""
    if isinstance(s, list) and not s:
        return {}
    if "bool" in s:
        return bool(s["bool"])
    out = {}
    for k, v in s.items():
        if k == "ref":
            out["$ref"] = "#" if v == "#" else "#/definitions/" + v
        elif k in ("additionalProperties", "propertyNames", "additionalItems", "not", "contains"):
            out[k] = concrete_schema(v)
        elif k == "items":
            out[k] = concrete_schema(v)
        elif k == "itemsList":
            out["items"] = [concrete_schema(x) for x in v]
        elif k in ("allOf", "anyOf", "oneOf"):
            out[k] = [concrete_schema(x) for x in v]
        elif k in ("properties", "patternProperties", "definitions"):
            out[k] = {} if isinstance(v, list) else {pk: concrete_schema(pv) for pk, pv in v.items()}
        elif k in ("default", "const"):
            out[k] = untag(v)
        elif k == "enum":
            out[k] = [untag(x) for x in v]
        elif k in ("minimum", "maximum", "exclusiveMinimum", "exclusiveMaximum"):
            out[k] = (ANCHOR[v["a"]] + v["o"]) if "a" in v else untag(v)
        elif k == "types":
            out["type"] = v
        elif k == "xrust":
            pass
        else:
            out[k] = v
    f = out.get("format")
    if f in STR_SAMPLES:
        out = {"allOf": [out, {"if": {"type": "string"}, "then": {"enum": STR_SAMPLES[f]}}]}
    if f in INT_RANGES:
        lo, hi = INT_RANGES[f]
        out = {"allOf": [out, {"if": {"type": "integer"}, "then": {"minimum": lo, "maximum": hi}}]}
    return out


def oracle_selfcheck(items):
    """items: iterable of (defs, schema_name, tagged value, tla_verdict).  Runs the Python
    jsonschema Draft7Validator in the tooling venv and returns the list of disagreements."""
    payload = []
    for defs, name, val, verdict in items:
        payload.append({"defs": {k: concrete_schema(v) for k, v in defs.items()}, "name": name,
                        "val": untag(val), "tla": bool(verdict)})
    ipath = os.path.join(BUILD, "oracle_in.%d.json" % os.getpid())
    with open(ipath, "w") as f:
        json.dump(payload, f)
    out, _ = sh(["python3-vt", os.path.join(VERIF, "bin", "oracle.py"), ipath], timeout=1200)
    os.remove(ipath)
    res = json.loads(out.strip().splitlines()[-1])
    return res
