#!/usr/bin/env python3-vt
"""Independent JSON Schema draft-07 verdicts (jsonschema.Draft7Validator) for the
oracle self-check of Schema!Valid.  Input: JSON list of {defs, name, val, tla}.
Large inputs are split over worker processes (contiguous chunks, so that the
per-document validator cache stays effective)."""
import json, sys, os
from concurrent.futures import ProcessPoolExecutor
from jsonschema import Draft7Validator


def work(args):
    base, items = args
    dis, cache = [], {}
    for i, it in enumerate(items):
        key = json.dumps(it["defs"], sort_keys=True) + "|" + it["name"]
        v = cache.get(key)
        if v is None:
            doc = {"definitions": it["defs"], "$ref": "#/definitions/" + it["name"]}
            v = Draft7Validator(doc)
            cache[key] = v
        ok = v.is_valid(it["val"])
        if ok != it["tla"]:
            dis.append({"index": base + i, "name": it["name"], "val": it["val"], "tla": it["tla"], "python": ok,
                        "schema": it["defs"][it["name"]]})
    return dis


def main():
    items = json.load(open(sys.argv[1]))
    n = len(items)
    nproc = 1 if n < 20000 else min(12, os.cpu_count() or 1)
    if nproc == 1:
        dis = work((0, items))
    else:
        size = -(-n // nproc)
        chunks = [(k, items[k:k + size]) for k in range(0, n, size)]
        dis = []
        with ProcessPoolExecutor(max_workers=nproc) as ex:
            for d in ex.map(work, chunks):
                dis += d
    print(json.dumps({"checked": n, "disagreements": dis[:20], "n_disagree": len(dis)}))


if __name__ == "__main__":
    main()
