#!/usr/bin/env python3-vt
"""Independent JSON Schema draft-07 verdicts (jsonschema.Draft7Validator) for the
oracle self-check of Schema!Valid.  Input: JSON list of {defs, name, val, tla}."""
import json, sys
from jsonschema import Draft7Validator

items = json.load(open(sys.argv[1]))
dis = []
cache = {}
for i, it in enumerate(items):
    key = json.dumps(it["defs"], sort_keys=True) + "|" + it["name"]
    v = cache.get(key)
    if v is None:
        doc = {"definitions": it["defs"], "$ref": "#/definitions/" + it["name"]}
        v = Draft7Validator(doc)
        cache[key] = v
    ok = v.is_valid(it["val"])
    if ok != it["tla"]:
        dis.append({"index": i, "name": it["name"], "val": it["val"], "tla": it["tla"], "python": ok,
                    "schema": it["defs"][it["name"]]})
print(json.dumps({"checked": len(items), "disagreements": dis[:20], "n_disagree": len(dis)}))
