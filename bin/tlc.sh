#!/bin/sh
# TLC with the /verif/spec library path; serial GC (parallel GC burns system time
# when several TLC instances share the machine); deep recursion allowed.
exec java -XX:+UseSerialGC -Xss1g ${TLC_HEAP:--Xmx6g} -DTLA-Library=/verif/spec:/verif/mc \
  ${TLC_DEQUE:+-Dtlc2.tool.queue.IStateQueue=StateDeque} \
  -cp /opt/veriftools/tla/tla2tools.jar:/opt/veriftools/tla/CommunityModules-deps.jar tlc2.TLC "$@"
