#!/bin/sh
# TLC with this checkout's spec/ and mc/ as library path; serial GC (parallel GC burns system
# time when several TLC instances share the machine); deep recursion allowed.
D=$(cd "$(dirname "$0")/.." && pwd)
exec java -XX:+UseSerialGC -Xss1g ${TLC_HEAP:--Xmx6g} -DTLA-Library=$D/spec:$D/mc \
  ${TLC_DEQUE:+-Dtlc2.tool.queue.IStateQueue=StateDeque} \
  -cp /opt/veriftools/tla/tla2tools.jar:/opt/veriftools/tla/CommunityModules-deps.jar tlc2.TLC "$@"
