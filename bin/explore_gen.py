#!/usr/bin/env python3
"""bin/explore_gen.py <seed> <num>: SchemaGen documents under tlc -simulate through the C02/C03 pipeline (exploration aid)"""
import sys, os, json
sys.path.insert(0, os.path.dirname(os.path.abspath(__file__)))
import vlib
seed, num = int(sys.argv[1]), int(sys.argv[2])
vlib.build_vdrive()
cases, st, _ = vlib.run_mc("MC_Gen.tla", "Gen_sim.cfg", "GEN", workers=1, simulate="num=%d" % num, seed=seed, timeout=1800)
seen, uniq = set(), []
for c in cases:
    k = json.dumps(c["calls"], sort_keys=True)
    if k not in seen:
        seen.add(k); uniq.append(c)
cases = uniq
items = [(c["calls"][0]["doc"]["defs"], "T", p["val"], p["valid"]) for c in cases for p in c["probes"]]
oc = vlib.oracle_selfcheck(items)
print("cases", len(cases), "probes", len(items), "oracle disagreements", oc["n_disagree"], oc["disagreements"][:2])
events, gst = vlib.run_gen_pipeline("GEN", "deser", cases, nshards=12)
print(gst)
bad, ts = vlib.run_trace("Trace_C02.tla", "Trace_C02.cfg", events, "GEN", shards=8)
import collections
c = collections.Counter((b["prop"], b["diag"], tuple(b.get("known", []))) for b in bad)
for k, v in c.items(): print(v, k)
ng = [e for e in events if (e["ev"] == "ingest" and e["res"] != "ok") or (e["ev"] in ("render", "compile") and e["res"] != "ok")]
print("not generated:", len(ng), [(e["case"], e["ev"], e.get("res"), e.get("codes")) for e in ng[:10]])
json.dump({"bad": bad[:200], "cases": len(cases)}, open(os.path.join(vlib.BUILD, "explore_gen.%d.json" % seed), "w"))
