"""C12 - generated output is a deterministic function of settings and schema."""
import os, time, json
import vlib

PROP = "C12"


def run(tier, seed, replay=None):
    t0 = time.time()
    vlib.build_vdrive()
    if replay:
        cases = [json.load(open(replay))["case_line"]]
        mc_stats = {"distinct": 0, "generated": 0}
    else:
        cases, mc_stats, _ = vlib.run_mc("MC_C01.tla", "C01_%s.cfg" % tier, "C12", workers=8, timeout=3000)
    cpath = os.path.join(vlib.BUILD, "C12.cases.ndjson")
    epath = os.path.join(vlib.BUILD, "C12.events.ndjson")
    vlib.write_ndjson(cpath, cases)
    nproc = 6 if tier == "quick" else 12
    vlib.sh([vlib.VDRIVE_BIN, "c12", cpath, epath, str(nproc)], timeout=3000)
    events = vlib.read_ndjson(epath)
    bad, tstats = vlib.run_trace("Trace_C12.tla", "Trace_C12.cfg", events, "C12", shards=2, timeout=3000)

    def replay_of(v):
        i = v["case"] - 1
        return {"property": PROP, "diagnosis": v, "case_line": cases[i], "event": events[i],
                "how": "bin/check C12 --replay <this file>"}

    rendered = sum(1 for e in events if not e["runs"][0]["hash"].startswith("ERR"))
    return vlib.finish(
        PROP, tier, seed, t0, bad, events, cases, mc_stats, tstats,
        {"exhaustive": False,
         "rule": "every (document, settings, history) case of MC_C01; per case %d fresh processes (fresh RandomState seeds) and 3 encodings "
                 "of the document (object keys in sorted / reversed / rotated order, compact / spaced), to_stream() twice per run; "
                 "non-trivial = cases that render" % nproc,
         "distinct_nontrivial": rendered, "runs_per_case": len(events[0]["runs"]) if events else 0,
         "generator_processes": sum(len(e["runs"]) for e in events)},
        ["outputs are compared through a 64-bit FNV digest of to_stream().to_string()",
         "hash-seed dependence is sampled by fresh processes, not enumerated; the macro and CLI paths are compared in C15"],
        replay_of)
