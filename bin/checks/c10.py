"""C10 - built-in type selection can represent every value the schema admits."""
import os, time, json
import vlib


def formats_block():
    """string / number schemas with a format: every (type, format, spelling) state of MC_C10f goes through
    the real add_type; Trace_C10f judges the chosen type against the documented table"""
    cases, st, _ = vlib.run_mc("MC_C10f.tla", "C10f.cfg", "C10f", workers=2, timeout=600)
    cpath = os.path.join(vlib.BUILD, "C10f.cases.ndjson")
    epath = os.path.join(vlib.BUILD, "C10f.events.ndjson")
    vlib.write_ndjson(cpath, cases)
    vlib.sh([vlib.VDRIVE_BIN, "c10f", cpath, epath], timeout=600)
    events = vlib.read_ndjson(epath)
    bad, ts = vlib.run_trace("Trace_C10f.tla", "Trace_C10f.cfg", events, "C10f", shards=1, timeout=600)
    return bad, {"cases": len(cases), "mc": st, "trace": ts}


def run(tier, seed, replay=None):
    t0 = time.time()
    vlib.build_vdrive()
    if replay:
        rp = json.load(open(replay))
        cases = [rp["case_line"]]
        mc_stats = {"distinct": 0, "generated": 0}
    else:
        cases, mc_stats, _ = vlib.run_mc("MC_C10.tla", "C10_%s.cfg" % tier, "C10", workers=8,
                                         timeout=3000 if tier == "thorough" else 900)
    cpath = os.path.join(vlib.BUILD, "C10.cases.ndjson")
    epath = os.path.join(vlib.BUILD, "C10.events.ndjson")
    vlib.write_ndjson(cpath, cases)
    vlib.sh([vlib.VDRIVE_BIN, "c10", cpath, epath], timeout=1200)
    events = vlib.read_ndjson(epath)
    if len(events) != len(cases):
        raise vlib.ToolError("vdrive produced %d events for %d cases" % (len(events), len(cases)))
    bad, tstats = vlib.run_trace("Trace_C10.tla", "Trace_C10.cfg", events, "C10", shards=14,
                                 timeout=3000 if tier == "thorough" else 900)
    # the non-integer half: string and number formats (MC_C10f / Trace_C10f)
    fbad, fstats = formats_block() if replay is None else ([], {})
    for b in fbad:
        b["fmt_block"] = True
    bad = bad + fbad
    mfind = {}
    for c in cases:
        mfind[c["mdiag"]] = mfind.get(c["mdiag"], 0) + 1
    drift = sum(1 for c, e in zip(cases, events)
                if (c["predict"]["res"], c["predict"]["ty"] if c["predict"]["res"] == "ok" else "")
                != (e["res"] if e["res"] != "panic" else "err", e["ty"] if e["res"] == "ok" else ""))

    def replay_of(v):
        if v.get("fmt_block"):
            return {"property": "C10", "diagnosis": v, "how": "add_type of {type: <c.ty>, format: <c.fmt>} in spelling <c.spelling>"}
        i = v["case"] - 1
        return {"property": "C10", "diagnosis": v, "case_line": cases[i], "event": events[i],
                "how": "bin/check C10 --replay <this file>",
                "schema_given_to_add_type": "integer schema built from case_line.s (lattice points = exact integers)"}

    return vlib.finish(
        "C10", tier, seed, t0, bad, events, cases, mc_stats, tstats,
        {"exhaustive": replay is None,
         "rule": "every integer schema reachable in MC_C10 (format x bound-keyword sets x lattice points x multipleOf x default); "
                 "each distinct TLC state is one schema; a case is non-trivial if it has at least one keyword",
         "distinct_nontrivial": sum(1 for c in cases if c["s"]),
         "model_findings": mfind, "model_drift": drift, "string_and_number_formats": fstats},
        ["JSON Schema draft-07 semantics of minimum/maximum/exclusive*/multipleOf as transcribed in IntSchema.tla",
         "recognised integer formats are read as ranges (C02/C10 wording)",
         "obligations only for probes inside i64 or inside a recognised format's range (DESIGN A9)",
         "IntSchema!Admitted and Lattice!InType are cross-checked per run against i128 arithmetic in vdrive"],
        replay_of)
