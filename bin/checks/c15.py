"""C15 - macro, cargo subcommand and builder generate the same types."""
import os, re, time, json, shutil, subprocess
import vlib

PROP = "C15"
CLI_TARGET = os.path.join(vlib.BUILD, "target-cli")
EXP_TARGET = os.path.join(vlib.BUILD, "target-c15")


def build_cli():
    env = vlib.env_offline()
    vlib.sh(vlib.CARGO + ["build", "-p", "cargo-typify", "--offline", "--target-dir", CLI_TARGET],
            cwd=vlib.REPO, env=env, timeout=3000)
    exe = os.path.join(CLI_TARGET, "debug", "cargo-typify")
    if not os.path.exists(exe):
        raise vlib.ToolError("cargo-typify binary missing")
    return exe


def expand(crate_dir, out_path):
    """-Zunpretty=expanded of a crate; modules that make the expansion fail are removed (and
    reported as not expanded) until the rest expands.  Returns the set of removed modules."""
    shutil.copy(os.path.join(vlib.REPO, "Cargo.lock"), os.path.join(crate_dir, "Cargo.lock"))
    env = vlib.env_offline()
    env["RUSTC_BOOTSTRAP"] = "1"
    env["CARGO_TARGET_DIR"] = EXP_TARGET
    removed = set()
    lib = os.path.join(crate_dir, "src", "lib.rs")
    for _ in range(12):
        p = subprocess.run(vlib.CARGO + ["rustc", "--offline", "--lib", "--", "-Zunpretty=expanded"],
                           cwd=crate_dir, env=env, stdout=subprocess.PIPE, stderr=subprocess.PIPE, text=True, timeout=3000)
        if p.returncode == 0:
            with open(out_path, "w") as f:
                f.write(p.stdout)
            return removed
        lines = [int(m.group(1)) for m in re.finditer(r"src/lib\.rs:(\d+):", p.stderr)]
        if not lines:
            raise vlib.ToolError("expansion of %s failed without a source position:\n%s" % (crate_dir, p.stderr[-2000:]))
        src = open(lib).read().splitlines()
        # find the module enclosing the first reported line and blank it out
        ln = lines[0] - 1
        start = ln
        while start >= 0 and not src[start].startswith("pub mod v"):
            start -= 1
        if start < 0:
            raise vlib.ToolError("expansion error outside any case module:\n" + p.stderr[-2000:])
        end = start + 1
        while end < len(src) and not src[end].startswith("pub mod v"):
            end += 1
        removed.add(src[start].split()[2])
        src[start:end] = ["// removed: " + l for l in src[start:end]]
        open(lib, "w").write("\n".join(src) + "\n")
    raise vlib.ToolError("expansion of %s still fails after 12 removals" % crate_dir)


def run(tier, seed, replay=None):
    t0 = time.time()
    vlib.build_vdrive()
    cli = build_cli()
    if replay:
        cases = [json.load(open(replay))["case_line"]]
        mc_stats = {"distinct": 0, "generated": 0}
    else:
        cases, mc_stats, _ = vlib.run_mc("MC_C15.tla", "C15_%s.cfg" % tier, "C15", workers=4, timeout=3000)
    cpath = os.path.join(vlib.BUILD, "C15.cases.ndjson")
    e1 = os.path.join(vlib.BUILD, "C15.cli.ndjson")
    e2 = os.path.join(vlib.BUILD, "C15.macro.ndjson")
    scratch = os.path.join(vlib.BUILD, "c15")
    vlib.write_ndjson(cpath, cases)
    vlib.sh([vlib.VDRIVE_BIN, "c15", cpath, e1, cli, scratch], timeout=3000)
    m_out = os.path.join(scratch, "macro.expanded.rs")
    b_out = os.path.join(scratch, "bside.expanded.rs")
    removed = expand(os.path.join(scratch, "macro"), m_out)
    removed_b = expand(os.path.join(scratch, "bside"), b_out)
    if removed_b:
        raise vlib.ToolError("builder-side modules do not expand: %s" % sorted(removed_b))
    vlib.sh([vlib.VDRIVE_BIN, "c15cmp", cpath, e2, m_out, b_out], timeout=600)
    ev_cli = vlib.read_ndjson(e1)
    ev_mac = vlib.read_ndjson(e2)
    by = {}
    for e in ev_cli + ev_mac:
        by.setdefault(e["case"], []).append(e)
    events = []
    for c in sorted(by):
        events += sorted(by[c], key=lambda e: 0 if e["ev"] == "case" else 1)
    bad, tstats = vlib.run_trace("Trace_C15.tla", "Trace_C15.cfg", events, "C15", shards=1, timeout=3000)

    def replay_of(v):
        i = v["case"] - 1
        return {"property": PROP, "diagnosis": v, "case_line": cases[i],
                "events": [e for e in events if e["case"] == v["case"]],
                "how": "bin/check C15 --replay <this file>"}

    return vlib.finish(
        PROP, tier, seed, t0, bad, events, cases, mc_stats, tstats,
        {"exhaustive": replay is None,
         "rule": "every option vector reachable in MC_C15 within MaxOpts option-setting steps (builder, derives, map type, crate "
                 "specifiers incl. `*`, `!`, renames, hyphens, digits, unknown-crate policy, patch, replace, convert) plus four invalid "
                 "invocations; each is run through the real cargo-typify binary (all three output modes for the base vector) and through "
                 "import_types! (expanded with -Zunpretty=expanded next to the builder output expanded the same way); non-trivial = "
                 "front-end runs",
         "distinct_nontrivial": sum(1 for e in events if e["ev"] == "frontend"),
         "cli_runs": sum(1 for e in events if e["ev"] == "frontend" and e["which"] == "cli"),
         "macro_expansions": sum(1 for e in events if e["ev"] == "frontend" and e["which"] == "macro"),
         "model_findings": sum(1 for c in cases if not c["model_cli_ok"])},
        ["items are compared as whitespace-free token text after syn parsing, doc attributes dropped, the macro's `const _` anchor dropped",
         "the macro and the builder output are both passed through rustc's -Zunpretty=expanded (toolchain 1.80.1, RUSTC_BOOTSTRAP=1)",
         "cargo-typify is built from /repo's working tree into /verif/build/target-cli"],
        replay_of)
