"""C06 - schema defaults are reproduced exactly, or rejected when the schema is added."""
import os, time, json
import vlib

PROP = "C06"


def run(tier, seed, replay=None):
    t0 = time.time()
    vlib.build_vdrive()
    if replay:
        cases = [json.load(open(replay))["case_line"]]
        mc_stats = {"distinct": 0, "generated": 0}
    else:
        cases, mc_stats, _ = vlib.run_mc("MC_C06.tla", "C06_quick.cfg", "C06", workers=8, timeout=3000)
    items = [(c["calls"][0]["doc"]["defs"], "T" if False else None, None, None) for c in []]
    # oracle self-check: validity of each default under its site schema
    oitems = []
    for c in cases:
        defs = dict(c["calls"][0]["doc"]["defs"])
        defs["__site"] = c["sp"]
        oitems.append((defs, "__site", c["d"], c["default_valid"]))
    oc = vlib.oracle_selfcheck(oitems)
    if oc["n_disagree"]:
        raise vlib.ToolError("oracle self-check: Schema!Valid and jsonschema disagree on %d of %d defaults, e.g. %s"
                             % (oc["n_disagree"], oc["checked"], json.dumps(oc["disagreements"][:2])))
    events, gst = vlib.run_gen_pipeline("C06", "deser", cases, nshards=8)
    bad, tstats = vlib.run_trace("Trace_C06.tla", "Trace_C06.cfg", events, "C06", shards=4, timeout=3000)

    def replay_of(v):
        i = v["case"] - 1
        return {"property": PROP, "diagnosis": v, "case_line": cases[i],
                "events": [e for e in events if e["case"] == v["case"] and e["ev"] != "case"],
                "how": "bin/check C06 --replay <this file>"}

    return vlib.finish(
        PROP, tier, seed, t0, bad, events, cases, mc_stats, tstats,
        {"exhaustive": replay is None,
         "rule": "every (type kind, default value, position) of MC_C06: bool, integers incl. formats/NonZero/bounds, floats, strings, "
                 "options, vectors, sets, maps, tuples incl. one-tuples, fixed arrays, structs incl. nested defaults and flattened "
                 "members, enums in every tagging, constrained newtypes, unit, natives, any, boxed self reference; valid and invalid "
                 "values; default on a property and on a named definition; non-trivial = every case (each has a default)",
         "distinct_nontrivial": len(cases),
         "valid_defaults": sum(1 for c in cases if c["default_valid"]),
         "invalid_defaults": sum(1 for c in cases if not c["default_valid"]),
         "generated_crates": gst,
         "oracle_selfcheck": {"checked": oc["checked"], "disagreements": oc["n_disagree"]}},
        ["validity of a default is Schema!Valid on the site's schema, cross-checked against jsonschema",
         "a panic or Err inside the ingestion call counts as 'reported when the schema is added' (DESIGN A12)",
         "equality with the schema default is containment modulo pruned null/[]/{} plus additions justified by nested defaults (A8)"],
        replay_of)
