"""C08 - arbitrary JSON names map to valid identifiers and exact wire names."""
import os, time, json
import vlib

PROP = "C08"


def run(tier, seed, replay=None):
    t0 = time.time()
    vlib.build_vdrive()
    if replay:
        cases = [json.load(open(replay))["case_line"]]
        mc_stats = {"distinct": 0, "generated": 0}
    else:
        cases, mc_stats, _ = vlib.run_mc("MC_C08.tla", "C08_quick.cfg", "C08", workers=4, timeout=3000)
        if tier == "thorough":
            # the exhaustive space of longer names is out of reach of rustc (413 064 generated modules for
            # MaxLen 3 / PairLen 2): behaviours of the same machine with MaxLen 4 / PairLen 3 under
            # `tlc -simulate`, seeded by VERIF_SEED, every state of a behaviour being a case
            seen = set(json.dumps(c, sort_keys=True) for c in cases)
            sim, st = [], {"behaviours": 0, "seeds": []}
            for k in range(4):
                cs, st1, _ = vlib.run_mc("MC_C08.tla", "C08_sim.cfg", "C08.sim%d" % k, workers=1, timeout=3000,
                                         simulate="num=700", seed=seed * 1000 + k, heap="-Xmx3g")
                sim += cs
                st["behaviours"] += 700
                st["seeds"].append(seed * 1000 + k)
            for c in sim:
                key = json.dumps(c, sort_keys=True)
                if key not in seen:
                    seen.add(key)
                    cases.append(c)
            st["cases_added"] = len(cases) - int(mc_stats.get("distinct", 0))
            mc_stats["simulated"] = st
    events, gst = vlib.run_gen_pipeline("C08", "deser", cases, nshards=14, timeout=6000)
    bad, tstats = vlib.run_trace("Trace_C08.tla", "Trace_C08.cfg", events, "C08", shards=10, timeout=3000)

    def replay_of(v):
        i = v["case"] - 1
        return {"property": PROP, "diagnosis": v, "case_line": cases[i],
                "events": [e for e in events if e["case"] == v["case"] and e["ev"] in ("ingest", "compile", "deser")],
                "how": "bin/check C08 --replay <this file>"}

    accepted = sum(1 for e in events if e["ev"] == "endcase" and e["compiled"])
    return vlib.finish(
        PROP, tier, seed, t0, bad, events, cases, mc_stats, tstats,
        {"exhaustive": replay is None,
         "rule": "every name reachable in MC_C08 (all strings over the 15-character representative alphabet up to MaxLen, the Rust "
                 "keyword list in lower/Pascal/UPPER casing), every pair up to PairLen and a pool of pairs differing only in case or "
                 "separators, each used as property name, enumerated value and definition key; non-trivial = accepted by typify "
                 "(so identifiers, renames and the round trip were all checked)",
         "distinct_nontrivial": accepted, "name_cases": len(cases), "generated_crates": gst},
        ["identifier validity is syn's and rustc's verdict (the output must parse and compile); distinctness is diagnosed on the inventory",
         "wire name = serde rename if present else the identifier text (read from the syn inventory)",
         "an Err or panic at add time is the allowed alternative ('generation fails with an error')"],
        replay_of)
