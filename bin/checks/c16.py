"""C16 - the type space stays consistent across any history of additions."""
import os, time, json
import vlib


def run(tier, seed, replay=None):
    t0 = time.time()
    vlib.build_vdrive()
    if replay:
        cases = [json.load(open(replay))["case_line"]]
        mc_stats = {"distinct": 0, "generated": 0}
    else:
        cases, mc_stats, _ = vlib.run_mc("MC_C16.tla", "C16_quick.cfg", "C16", workers=4, timeout=2400)
        if tier == "thorough":
            # 37 templates make the exhaustive space of length-4 histories 1.9 million cases: the thorough
            # tier adds seeded behaviours of the same machine up to length 6 (`tlc -simulate`; every
            # state of a behaviour, i.e. every prefix of the history, is a case)
            seen = set(json.dumps(c["hist"]) for c in cases)
            st = {"behaviours": 0, "seeds": []}
            for k in range(4):
                cs, _, _ = vlib.run_mc("MC_C16.tla", "C16_sim.cfg", "C16.sim%d" % k, workers=1, timeout=2400,
                                       simulate="num=60", seed=seed * 1000 + k, heap="-Xmx3g")
                st["behaviours"] += 60
                st["seeds"].append(seed * 1000 + k)
                for c in cs:
                    key = json.dumps(c["hist"])
                    if key not in seen:
                        seen.add(key)
                        cases.append(c)
            st["histories_added"] = len(cases) - int(mc_stats.get("distinct", 0))
            mc_stats["simulated"] = st
    cpath = os.path.join(vlib.BUILD, "C16.cases.ndjson")
    epath = os.path.join(vlib.BUILD, "C16.events.ndjson")
    vlib.write_ndjson(cpath, cases)
    vlib.sh([vlib.VDRIVE_BIN, "c16", cpath, epath], timeout=2400)
    events = vlib.read_ndjson(epath)
    # batch independence compares cases with each other: one shard keeps every group together
    bad, tstats = vlib.run_trace("Trace_C16.tla", "Trace_C16.cfg", events, "C16", shards=1, timeout=2400)
    # implementation model TypeSpaceImpl (identifier allocation, name_to_id, ref_to_id): design check,
    # then every recorded call of the real TypeSpace validated as a step of the model (Trace_TS)
    _, ts_design, _ = vlib.run_mc("MC_TypeSpace.tla", "TypeSpace_thorough.cfg" if tier == "thorough" else "TypeSpace.cfg",
                                   "TypeSpace", workers=6, timeout=1500)
    ts_events = vlib.read_ndjson(epath + ".ts")
    ts_bad, ts_stats = vlib.run_trace("Trace_TS.tla", "Trace_TS.cfg", ts_events, "C16.TS", shards=14, timeout=2400)
    os.remove(epath + ".ts")
    for v in ts_bad:
        v["l"] = 0          # line numbers of the model trace do not index the contract trace
    bad = bad + ts_bad
    tstats["typespace_model"] = {"design_check": ts_design, "trace": ts_stats,
                                 "calls_validated": sum(1 for e in ts_events if e["ev"] == "ts"),
                                 "calls_after_a_failed_call": sum(1 for e in ts_events if e["ev"] == "ts" and e["res"] != "ok"),
                                 "rejected": len(ts_bad)}

    def replay_of(v):
        i = v["case"] - 1
        return {"property": "C16", "diagnosis": v, "case_line": cases[i],
                "events": [e for e in events if e["case"] == v["case"]],
                "how": "bin/check C16 --replay <this file>"}

    calls = sum(len(c["hist"]) for c in cases)
    return vlib.finish(
        "C16", tier, seed, t0, bad, events, cases, mc_stats, tstats,
        {"exhaustive": replay is None,
         "rule": "every history of at most MaxLen calls over the 37 call templates of MC_C16 (repeats, shared sub-schemas, "
                 "coinciding hints/titles, repeated definition keys, merged batches, a failing schema); each TLC state is one "
                 "history; non-trivial = at least two calls",
         "distinct_nontrivial": sum(1 for c in cases if len(c["hist"]) >= 2),
         "api_calls_replayed": calls,
         "groups_for_batch_independence": len(set(json.dumps(c["group"]) for c in cases if c["group"]))},
        ["contract observations use the public API only (get_type/name/ident/details, to_stream) after every call",
         "implementation model: the hook verif_snapshot projects next_id, id_to_entry, name_to_id, ref_to_id after every call; "
         "Trace_TS validates each call as a step of spec/TypeSpaceImpl.tla (StepOK) and each state against its invariants",
         "a panic inside an ingestion call is a rejection (DESIGN 2.4); the invariants must still hold afterwards",
         "structure of a type = kind + (label, child id, required) of its members + builtin name, through Type::details()"],
        replay_of)
