"""C14 - replacement, conversion, patch, derive and map-type settings apply everywhere."""
import os, time, json
import vlib

PROP = "C14"


def run(tier, seed, replay=None):
    t0 = time.time()
    vlib.build_vdrive()
    cases, mc_stats, _ = vlib.run_mc("MC_C14.tla", "C14_quick.cfg", "C14", workers=4, timeout=3000)
    # the baseline (default settings) first: the monitor compares every other case with it
    cases.sort(key=lambda c: (not c["baseline"], json.dumps(c["s"], sort_keys=True)))
    if replay:
        rc = json.load(open(replay))["case_line"]
        cases = [c for c in cases if c["baseline"]] + [rc]
    events, gst = vlib.run_gen_pipeline("C14", "deser", cases, nshards=8)
    bad, tstats = vlib.run_trace("Trace_C14.tla", "Trace_C14.cfg", events, "C14", shards=1, timeout=3000)

    def replay_of(v):
        i = v["case"] - 1
        return {"property": PROP, "diagnosis": v, "case_line": cases[i],
                "events": [e for e in events if e["case"] == v["case"] and e["ev"] in ("ingest", "compile")],
                "how": "bin/check C14 --replay <this file>"}

    return vlib.finish(
        PROP, tier, seed, t0, bad, events, cases, mc_stats, tstats,
        {"exhaustive": replay is None,
         "rule": "every settings vector reachable in MC_C14 (replacement | patch of the target definition, conversion of {type: number}, "
                 "global derive, builder, three map types) over a document that uses the target through property / optional / nullable / "
                 "array item / tuple element / map value / variant payload / nested struct / allOf member and the conversion schema "
                 "through property / item / option / map value / tuple / variant; non-trivial = non-default settings",
         "distinct_nontrivial": sum(1 for c in cases if not c["baseline"]),
         "generated_crates": gst, "behaviour_probes_per_case": len(cases[0]["probes"]) if cases else 0},
        ["use sites are read from the syn inventory as the set of type paths occurring in each field type",
         "unaffected types are Other and Col; their acceptance/round-trip vectors are compared with the default-settings case",
         "replacement / conversion targets are hand-written types in the generated crate's support module"],
        replay_of)
