"""C02 - every schema-valid JSON instance deserializes into the generated type.
(The same pipeline decides C03; see checks/c03.py.)"""
import os, sys, time, json
import vlib

PROP = "C02"


def pipeline(tier, seed, replay=None):
    vlib.build_vdrive()
    if replay:
        cases = [json.load(open(replay))["case_line"]]
        mc_stats = {"distinct": 0, "generated": 0}
    else:
        cases, mc_stats, _ = vlib.run_mc("MC_C02.tla", "C02_%s.cfg" % tier, "C02", workers=8, timeout=3000)
        if tier == "thorough":
            # plus seeded random documents of the SchemaGen machine (VERIF_SEED)
            gcases, gst0 = vlib.gen_cases(seed, 900)
            cases = cases + gcases
            mc_stats["simulated"] = gst0
    # oracle self-check: TLA+ Valid vs Python jsonschema on every (schema, instance) of the run
    items = []
    for c in cases:
        defs = c["calls"][0]["doc"]["defs"]
        for p in c["probes"]:
            items.append((defs, "T", p["val"], p["valid"]))
    oc = vlib.oracle_selfcheck(items)
    if oc["n_disagree"]:
        raise vlib.ToolError("oracle self-check: Schema!Valid and jsonschema disagree on %d of %d instances, e.g. %s"
                             % (oc["n_disagree"], oc["checked"], json.dumps(oc["disagreements"][:2])))
    events, gst = vlib.run_gen_pipeline("C02", "deser", cases, nshards=8)
    bad, tstats = vlib.run_trace("Trace_C02.tla", "Trace_C02.cfg", events, "C02", shards=8, timeout=3000)
    return cases, mc_stats, events, gst, bad, tstats, oc


def excl_conformance(tier):
    """Implementation model Exclusive (util.rs all_mutually_exclusive, convert_any_of) vs the code:
    every state of MC_Excl is replayed into the real analysis and into anyOf conversion, and
    Trace_Excl recomputes the model's answer for each recorded event.  Also collects what TLC
    found about the analysis itself (answers "yes" for branches that share an instance)."""
    cases, mc_stats, _ = vlib.run_mc("MC_Excl.tla", "Excl_%s.cfg" % tier, "Excl", workers=8, timeout=1500)
    cpath = os.path.join(vlib.BUILD, "Excl.cases.ndjson")
    epath = os.path.join(vlib.BUILD, "Excl.events.ndjson")
    vlib.write_ndjson(cpath, cases)
    vlib.sh([vlib.VDRIVE_BIN, "excl", cpath, epath], timeout=1200)
    events = vlib.read_ndjson(epath)
    if len(events) != len(cases):
        raise vlib.ToolError("vdrive excl produced %d events for %d cases" % (len(events), len(cases)))
    _, tstats = vlib.run_trace("Trace_Excl.tla", "Trace_Excl.cfg", events, "Excl", shards=8, timeout=1500)
    div = tstats.pop("diverge", [])
    if div:
        print("NOTE: the implementation model spec/Exclusive.tla does not explain %d of %d recorded answers of "
              "all_mutually_exclusive / convert_any_of (first: %s)" % (len(div), len(events), json.dumps(div[0])[:300]),
              file=sys.stderr, flush=True)
    answers = {}
    for c in cases:
        answers[c["model"]] = answers.get(c["model"], 0) + 1
    return {"branch_lists": len(cases), "mc": mc_stats, "trace": tstats, "model_answers": answers,
            "divergences_from_code": len(div), "divergence_samples": div[:3],
            "analysis_says_exclusive_but_branches_share_an_instance": sum(1 for c in cases if c["unsound"]),
            "analysis_not_symmetric": sum(1 for c in cases if not c["symmetric"]),
            "code_panics": sum(1 for e in events if e["res"] == "panic")}


def run(tier, seed, replay=None, prop=PROP):
    t0 = time.time()
    cases, mc_stats, events, gst, bad, tstats, oc = pipeline(tier, seed, replay)
    excl = excl_conformance(tier) if replay is None else {}
    mine = [b for b in bad if b["prop"] == prop]
    nvalid = sum(1 for c in cases for p in c["probes"] if p["valid"])
    ndecl = sum(1 for c in cases for p in c["probes"] if p["valid"] and p["declared"])
    not_generated = sorted(set(e["case"] for e in events
                               if (e["ev"] == "ingest" and e["res"] != "ok")
                               or (e["ev"] in ("render", "compile") and e["res"] != "ok")))

    def replay_of(v):
        i = v["case"] - 1
        return {"property": prop, "diagnosis": v, "case_line": cases[i],
                "events": [e for e in events if e["case"] == v["case"] and e["ev"] != "case"
                           and e.get("probe", v.get("probe")) == v.get("probe")],
                "how": "bin/check %s --replay <this file>" % prop}

    fams, applic = {}, {}
    for c in cases:
        fams[c["fam"]] = fams.get(c["fam"], 0) + 1
        a = applic.setdefault(c["fam"], {"valid": 0, "valid_declared_only": 0})
        a["valid"] += sum(1 for p in c["probes"] if p["valid"])
        a["valid_declared_only"] += sum(1 for p in c["probes"] if p["valid"] and p["declared"])
    return vlib.finish(
        prop, tier, seed, t0, mine, events, cases, mc_stats, tstats,
        {"exhaustive": replay is None,
         "rule": "every document of the stratified universe (Families.tla F1..F11: scalars x formats, string constraints, enums, "
                 "nullable spellings, objects, maps, arrays/tuples/sets, references and recursion, oneOf in the four tagging shapes, "
                 "exclusive anyOf, allOf of objects) x every candidate instance of Instances!Candidates (boundary values, "
                 "one-at-a-time member variations, missing/extra members, wrong types), each classified by Schema!Valid; "
                 "non-trivial = instance classified valid (C02) / valid with declared members only (C03)",
         "distinct_nontrivial": nvalid if prop == "C02" else ndecl,
         "documents": len(cases), "instances": sum(len(c["probes"]) for c in cases),
         "valid_instances": nvalid, "valid_declared_only": ndecl, "families": fams,
         "applicability_by_family": applic,
         "generated_crates": gst, "cases_not_generated_or_not_compiled": not_generated,
         "oracle_selfcheck": {"checked": oc["checked"], "disagreements": oc["n_disagree"]},
         "impl_model_exclusive": excl},
        ["draft-07 semantics as transcribed in Schema.tla, cross-checked on every instance of the run against jsonschema.Draft7Validator",
         "recognised integer formats are ranges; string formats are annotations and formatted probes are canonical conforming text",
         "cases whose schema is rejected or whose output does not compile are left to C01 (counted in cases_not_generated_or_not_compiled)",
         "generated code is compiled with rustc 1.80.1 against serde/serde_json/regress/chrono/uuid from the offline registry"],
        replay_of)
