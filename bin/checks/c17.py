"""C17 - the introspection API describes the code that is generated
(and C19 through checks/c19.py: same pipeline as C01, verdicts from Trace_C17)."""
import os, time, json
import vlib
from checks import c01

PROP = "C17"


def run(tier, seed, replay=None, prop=PROP):
    t0 = time.time()
    cases, mc_stats, events, gst = c01.pipeline(tier, seed, replay)
    bad, tstats = vlib.run_trace("Trace_C17.tla", "Trace_C17.cfg", events, "C17", shards=8, timeout=3000)
    mine = [b for b in bad if b["prop"] == prop]

    def replay_of(v):
        i = v["case"] - 1
        return {"property": prop, "diagnosis": v, "case_line": cases[i],
                "events": [e for e in events if e["case"] == v["case"] and e["ev"] in ("intro", "bounds_decl", "bounds", "compile")],
                "how": "bin/check %s --replay <this file>" % prop}

    ntypes = sum(len(e["types"]) for e in events if e["ev"] == "intro")
    nassert = sum(len(e["rows"]) for e in events if e["ev"] == "bounds_decl")
    compiled = sum(1 for e in events if e["ev"] == "compile" and e["res"] == "ok")
    rule = ("every (document, settings, history) case of MC_C01 that compiles; for each, every type of iter_types() is compared "
            "with the syn inventory of to_stream() (C17) / every named item is checked for visibility and trait-bound assertions "
            "compiled by rustc, one assertion per (type, trait group) (C19); non-trivial = compiled cases")
    return vlib.finish(
        prop, tier, seed, t0, mine, events, cases, mc_stats, tstats,
        {"exhaustive": replay is None, "rule": rule, "distinct_nontrivial": compiled,
         "types_inspected": ntypes, "bound_assertions": nassert, "generated_crates": gst},
        ["trait implementation is rustc's verdict on `fn a<T: Bound>() {}; a::<Ty>()`, one assertion per line, failures attributed by line",
         "ids of iter_types() rows are taken from the snapshot hook (same iteration order); everything else is public API",
         "cases that do not compile are C01's business and carry no C17/C19 obligation"],
        replay_of)
