"""C13 - x-rust-type substitution follows the documented crate/version policy."""
import os, time, json
import vlib


def run(tier, seed, replay=None):
    t0 = time.time()
    vlib.build_vdrive()
    if replay:
        cases = [json.load(open(replay))["case_line"]]
        mc_stats = {"distinct": 0, "generated": 0}
    else:
        cases, mc_stats, _ = vlib.run_mc("MC_C13.tla", "C13_%s.cfg" % tier, "C13", workers=8, timeout=2400)
    cpath = os.path.join(vlib.BUILD, "C13.cases.ndjson")
    epath = os.path.join(vlib.BUILD, "C13.events.ndjson")
    vlib.write_ndjson(cpath, cases)
    vlib.sh([vlib.VDRIVE_BIN, "c13", cpath, epath], timeout=2400)
    events = vlib.read_ndjson(epath)
    if len(events) != len(cases):
        raise vlib.ToolError("vdrive produced %d events for %d cases" % (len(events), len(cases)))
    bad, tstats = vlib.run_trace("Trace_C13.tla", "Trace_C13.cfg", events, "C13", shards=12, timeout=2400)
    blocks = {}
    for c in cases:
        blocks[c["c"]["block"]] = blocks.get(c["c"]["block"], 0) + 1

    def replay_of(v):
        i = v["case"] - 1
        return {"property": "C13", "diagnosis": v, "case_line": cases[i], "event": events[i],
                "how": "bin/check C13 --replay <this file>"}

    return vlib.finish(
        "C13", tier, seed, t0, bad, events, cases, mc_stats, tstats,
        {"exhaustive": replay is None,
         "rule": "decision table of MC_C13: block A = every (requirement, configured version) pair with components 0..MaxComp "
                 "over all operators, partial versions, wildcards, comma ranges, pre-releases; block B = crate config x "
                 "unknown policy x rename x crate spelling x parameter lists x definition-name coincidence; block C = malformed "
                 "extensions; a case is non-trivial when the contract's Substituted and the default (generate) outcome differ "
                 "or the extension is malformed",
         "distinct_nontrivial": sum(1 for c in cases if c["sub"] or c["c"]["block"] == "C"),
         "blocks": blocks,
         "model_findings": sum(1 for c in cases if not c["model_ok"]),
         "substituted_cases": sum(1 for c in cases if c["sub"])},
        ["Cargo requirement semantics as written in Semver.tla (cross-checked per run against crate semver 1.0.26)",
         "identifier text of inline parameter schemas: string -> ::std::string::String, integer -> i64, $ref P -> P",
         "the annotated definition is observed through a property of another struct (Type::ident) and the syn inventory"],
        replay_of)
