"""C03 - round trip keeps declared data, stays schema-valid and is idempotent.
Same pipeline as C02 (same documents, same compiled types, same events); the
verdicts are Trace_C02's C03 diagnoses."""
from checks import c02


def run(tier, seed, replay=None):
    return c02.run(tier, seed, replay, prop="C03")
