"""C11 - string conversions of generated types agree with their wire format."""
from checks import c05


def run(tier, seed, replay=None):
    return c05.run(tier, seed, replay, prop="C11")
