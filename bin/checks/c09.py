"""C09 - allOf means intersection, independent of subschema order."""
import os, time, json
import vlib

PROP = "C09"


def run(tier, seed, replay=None):
    t0 = time.time()
    vlib.build_vdrive()
    if replay:
        cases = [json.load(open(replay))["case_line"]]
        mc_stats = {"distinct": 0, "generated": 0}
    else:
        cases, mc_stats, _ = vlib.run_mc("MC_C09.tla", "C09_%s.cfg" % tier, "C09", workers=8, timeout=3000)
    items = []
    for c in cases:
        defs = dict(c["calls"][0]["doc"]["defs"])
        defs["__A"] = {"allOf": c["subs"]}
        seen = set()
        for p in c["probes"]:
            if p["perm"] == 1:
                items.append((defs, "__A", p["val"], p["valid"]))
    oc = vlib.oracle_selfcheck(items)
    if oc["n_disagree"]:
        raise vlib.ToolError("oracle self-check: Schema!Valid and jsonschema disagree on %d of %d instances, e.g. %s"
                             % (oc["n_disagree"], oc["checked"], json.dumps(oc["disagreements"][:2])))
    events, gst = vlib.run_gen_pipeline("C09", "deser", cases, nshards=8)
    bad, tstats = vlib.run_trace("Trace_C09.tla", "Trace_C09.cfg", events, "C09", shards=4, timeout=3000)

    def replay_of(v):
        i = v["case"] - 1
        return {"property": PROP, "diagnosis": v, "case_line": cases[i],
                "events": [e for e in events if e["case"] == v["case"] and e["ev"] in ("ingest", "merge", "compile")],
                "how": "bin/check C09 --replay <this file>"}

    return vlib.finish(
        PROP, tier, seed, t0, bad, events, cases, mc_stats, tstats,
        {"exhaustive": replay is None,
         "rule": "every allOf composition of MC_C09 (disjoint/overlapping/closed objects, additionalProperties schemas, references "
                 "with constraints, enum and type restrictions, array item schemas, nested oneOf with disjoint branches, unsatisfiable "
                 "conjunctions, 2 and 3 subschemas) x all permutations x candidates (per-branch instances, their unions, wrong types); "
                 "non-trivial = (permutation, candidate) pairs",
         "distinct_nontrivial": sum(len(c["probes"]) for c in cases),
         "compositions": len(cases), "generated_crates": gst,
         "oracle_selfcheck": {"checked": oc["checked"], "disagreements": oc["n_disagree"]}},
        ["Schema!Valid on the allOf schema itself is the oracle (cross-checked against jsonschema)",
         "'merge reports never' is read from the hook verif_merge_all (merge_all over the same subschema list)",
         "conflicting number/string validations are outside the statement's list and not enumerated (DESIGN A11)"],
        replay_of)
