"""C01 - every accepted schema yields Rust that compiles (shared document pipeline
with C17 and C19: documents x settings x ingestion histories, all types bound-asserted)."""
import os, time, json
import vlib

PROP = "C01"


def pipeline(tier, seed, replay=None):
    vlib.build_vdrive()
    if replay:
        cases = [json.load(open(replay))["case_line"]]
        mc_stats = {"distinct": 0, "generated": 0}
    else:
        cases, mc_stats, _ = vlib.run_mc("MC_C01.tla", "C01_%s.cfg" % tier, "C01", workers=8, timeout=3000)
    events, gst = vlib.run_gen_pipeline("C01", "intro", cases, nshards=14, timeout=6000)
    return cases, mc_stats, events, gst


def run(tier, seed, replay=None):
    t0 = time.time()
    cases, mc_stats, events, gst = pipeline(tier, seed, replay)
    bad, tstats = vlib.run_trace("Trace_C01.tla", "Trace_C01.cfg", events, "C01", shards=8, timeout=3000)

    def replay_of(v):
        i = v["case"] - 1
        return {"property": PROP, "diagnosis": v, "case_line": cases[i],
                "events": [e for e in events if e["case"] == v["case"] and e["ev"] in ("ingest", "compile")],
                "how": "bin/check C01 --replay <this file>; generated module under build/gen/C01/s*/src/m<case>/"}

    accepted = sum(1 for e in events if e["ev"] == "endcase" and e["compiled"])
    return vlib.finish(
        PROP, tier, seed, t0, bad, events, cases, mc_stats, tstats,
        {"exhaustive": replay is None,
         "rule": "every (document, settings, ingestion history) state of MC_C01: documents = the faithful universe F1..F11 plus the "
                 "generation stress families G1..G5 (colliding/keyword names, defaults of every kind, nullable named definitions, deny "
                 "lists, const, multi-type, pattern properties, overlapping anyOf, conflicting allOf); settings = builder/map type/extra "
                 "derives/type_mod vectors; histories = add_root_schema, add_ref_types (and add_type / titled root in thorough); "
                 "non-trivial = ingestion succeeded, so rendering, parsing and compiling were all exercised",
         "distinct_nontrivial": accepted,
         "modules_compiled": gst.get("modules"), "modules_failed": gst.get("modules_failed"), "generated_crates": gst},
        ["type-checking is rustc 1.80.1's verdict on the generated crate (serde, serde_json, regress, chrono, uuid as dependencies)",
         "compile errors are attributed to a case by the file of the primary span; unattributable errors abort the check (exit 2)",
         "a panic or Err at ingestion is a rejection; rejections are violations only for documents marked supported (FamiliesG!Supported)"],
        replay_of)
