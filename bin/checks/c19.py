"""C19 - every generated type is public and carries the promised trait surface."""
from checks import c17


def run(tier, seed, replay=None):
    return c17.run(tier, seed, replay, prop="C19")
