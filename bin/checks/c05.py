"""C05 - constraints represented in a generated type cannot be bypassed
(and C11 through checks/c11.py: same pipeline, verdicts from Trace_C05)."""
import os, time, json
import vlib

PROP = "C05"


def run(tier, seed, replay=None, prop=PROP):
    t0 = time.time()
    vlib.build_vdrive()
    if replay:
        cases = [json.load(open(replay))["case_line"]]
        mc_stats = {"distinct": 0, "generated": 0}
    else:
        cases, mc_stats, _ = vlib.run_mc("MC_C05.tla", "C05_%s.cfg" % tier, "C05", workers=8, timeout=3000)
        if tier == "thorough" and prop == "C05":
            # plus seeded random documents of the SchemaGen machine whose root is an enforced construct
            gcases, gst0 = vlib.gen_cases(seed, 900)
            gcases = [c for c in gcases if c["enforced"]]
            cases = cases + gcases
            mc_stats["simulated"] = dict(gst0, enforced_documents=len(gcases))
    items = []
    for c in cases:
        defs = c["calls"][0]["doc"]["defs"]
        for p in c["probes"]:
            items.append((defs, "T", p["val"], p["valid"]))
    oc = vlib.oracle_selfcheck(items)
    if oc["n_disagree"]:
        raise vlib.ToolError("oracle self-check: Schema!Valid and jsonschema disagree on %d of %d instances, e.g. %s"
                             % (oc["n_disagree"], oc["checked"], json.dumps(oc["disagreements"][:2])))
    events, gst = vlib.run_gen_pipeline("C05", "deser", cases, nshards=8)
    bad, tstats = vlib.run_trace("Trace_C05.tla", "Trace_C05.cfg", events, "C05", shards=8, timeout=3000)
    mine = [b for b in bad if b["prop"] == prop]

    def replay_of(v):
        i = v["case"] - 1
        return {"property": prop, "diagnosis": v, "case_line": cases[i],
                "events": [e for e in events if e["case"] == v["case"] and e.get("probe") == v.get("probe") and e["ev"] != "case"],
                "how": "bin/check %s --replay <this file>" % prop}

    ninvalid = sum(1 for c in cases if c["enforced"] for p in c["probes"] if p["kind"] == "deser" and not p["valid"])
    nstr = sum(1 for c in cases for p in c["probes"] if p["kind"] == "str")
    return vlib.finish(
        prop, tier, seed, t0, mine, events, cases, mc_stats, tstats,
        {"exhaustive": replay is None,
         "rule": "enforced universe = every document of F1..F11/G5/E1 whose keywords are all of an enforced kind (FamiliesE!Enforced) x "
                 "every candidate instance (Instances!Candidates) classified invalid by Schema!Valid; string-like universe = every "
                 "string-typed document plus S1 (odd-cased/renamed/keyword enums, plain and constrained newtypes, untagged enums of "
                 "string alternatives, formatted natives) x probe strings (members, non-members, boundary lengths in 1/2/4-byte "
                 "scalars, format samples); non-trivial = invalid instances (C05) / string probes (C11)",
         "distinct_nontrivial": ninvalid if prop == "C05" else nstr,
         "invalid_instances": ninvalid, "string_probes": nstr, "documents": len(cases), "generated_crates": gst,
         "oracle_selfcheck": {"checked": oc["checked"], "disagreements": oc["n_disagree"]}},
        ["Schema!Valid is cross-checked against jsonschema on every instance of the run",
         "string formats are assertions only on the canonical samples (DESIGN A2); other strings carry no obligation under a format",
         "conversions are probed only where the rendered output offers the impl (read from the syn inventory)"],
        replay_of)
