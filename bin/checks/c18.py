"""C18 - the builder interface constructs exactly the valid structs."""
import os, time, json
import vlib

PROP = "C18"


def run(tier, seed, replay=None):
    t0 = time.time()
    vlib.build_vdrive()
    if replay:
        cases = [json.load(open(replay))["case_line"]]
        mc_stats = {"distinct": 0, "generated": 0}
    else:
        cases, mc_stats, _ = vlib.run_mc("MC_C18.tla", "C18_%s.cfg" % tier, "C18", workers=4, timeout=3000)
    events, gst = vlib.run_gen_pipeline("C18", "deser", cases, nshards=8)
    bad, tstats = vlib.run_trace("Trace_C18.tla", "Trace_C18.cfg", events, "C18", shards=4, timeout=3000)

    def replay_of(v):
        i = v["case"] - 1
        return {"property": PROP, "diagnosis": v, "case_line": cases[i],
                "events": [e for e in events if e["case"] == v["case"] and e["ev"] in ("builder", "deser", "compile")],
                "how": "bin/check C18 --replay <this file>"}

    nb = sum(1 for e in events if e["ev"] == "builder")
    return vlib.finish(
        PROP, tier, seed, t0, bad, events, cases, mc_stats, tstats,
        {"exhaustive": replay is None,
         "rule": "every behaviour of the ContractBuilder machine explored by TLC (MC_C18): 4 structs (required/optional/defaulted/array "
                 "members; fallible conversions into a constrained newtype and a u8; keyword and renamed property names; all members "
                 "defaulted) x every history of at most MaxSteps setter calls with convertible values, inconvertible arguments and "
                 "re-setting; each history is compiled into a driver and run; non-trivial = at least one setter call",
         "distinct_nontrivial": sum(1 for c in cases if c["hist"]),
         "builder_runs": nb, "generated_crates": gst},
        ["the inconvertible arguments are `String::new()` for a minLength-1 newtype and `300u64` for a u8",
         "the failing property is recognised in the error message by whole-word match of the field identifier (done in the generated driver)",
         "built value is compared with serde's result on the object holding the same members"],
        replay_of)
