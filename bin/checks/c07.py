"""C07 - recursive schemas produce finitely sized types."""
import os, sys, time, json
import vlib

CFGS = {"quick": ["C07_q1.cfg", "C07_q2.cfg", "C07_q2p.cfg", "C07_q3s.cfg"],
        "thorough": ["C07_t1.cfg", "C07_t2.cfg", "C07_q2p.cfg", "C07_q3.cfg"]}


def cycles_model(tier, bcpath):
    """Implementation model Cycles (cycles.rs break_cycles): (1) TLC checks the machine itself over
    every small containment multigraph (Acyclic, OnlyCycles, ActiveIsStack, termination);
    (2) the steps recorded from the real break_cycles (hook cycle_event) while the C07 cases were
    ingested are validated, step by step, against the machine by Trace_Cycles.  Divergences are
    reported, not judged (the C07 verdict comes from the containment contract)."""
    _, st, _ = vlib.run_mc("MC_Cycles.tla", "Cycles_%s.cfg" % tier, "Cycles", workers=6, timeout=3000)
    ev = vlib.read_ndjson(bcpath)
    _, ts = vlib.run_trace("Trace_Cycles.tla", "Trace_Cycles.cfg", ev, "Cycles", shards=14, timeout=3000)
    div = ts.pop("diverge", [])
    if div:
        print("NOTE: the implementation model spec/Cycles.tla does not explain %d recorded step(s) of break_cycles "
              "(first: %s)" % (len(div), json.dumps(div[0])[:400]), file=sys.stderr, flush=True)
    os.remove(bcpath)
    return {"design_check": st, "runs": sum(1 for e in ev if e["ev"] == "bc_run"), "steps": len(ev),
            "snips": sum(len(e.get("snip", [])) for e in ev if e["ev"] == "bc_visit"),
            "trace": ts, "divergences_from_code": len(div), "divergence_samples": div[:3]}


def run(tier, seed, replay=None):
    t0 = time.time()
    vlib.build_vdrive()
    cases, mc_stats = [], {"distinct": 0, "generated": 0, "configs": {}}
    if replay:
        cases = [json.load(open(replay))["case_line"]]
    else:
        for cfg in CFGS[tier]:
            cs, st, _ = vlib.run_mc("MC_C07.tla", cfg, "C07", workers=8, timeout=3000)
            cases += cs
            mc_stats["distinct"] += st["distinct"]
            mc_stats["generated"] += st["generated"]
            mc_stats["configs"][cfg] = st
    cpath = os.path.join(vlib.BUILD, "C07.cases.ndjson")
    epath = os.path.join(vlib.BUILD, "C07.events.ndjson")
    vlib.write_ndjson(cpath, cases)
    vlib.sh([vlib.VDRIVE_BIN, "c07", cpath, epath], timeout=3000)
    events = vlib.read_ndjson(epath)
    bad, tstats = vlib.run_trace("Trace_C07.tla", "Trace_C07.cfg", events, "C07", shards=14, timeout=3000)
    boxed = sum(1 for e in events if any(x["kind"] == "box" for x in e["snap"]))
    cyc = cycles_model(tier, epath + ".bc") if replay is None else {}

    def replay_of(v):
        i = v["case"] - 1
        return {"property": "C07", "diagnosis": v, "case_line": cases[i], "event": events[i],
                "how": "bin/check C07 --replay <this file>"}

    return vlib.finish(
        "C07", tier, seed, t0, bad, events, cases, mc_stats, tstats,
        {"exhaustive": replay is None,
         "rule": "every directed multigraph MC_C07 can build: n definitions of kinds struct/alias/enum, edges appended in "
                 "canonical order up to MaxEdges over the edge-kind alphabet (required, optional, nullable, tuple, fixed array, "
                 "vec, map); non-trivial = the schema-level by-value graph has a cycle",
         "distinct_nontrivial": sum(1 for c in cases if not c["schema_acyclic"]),
         "cases_with_box": boxed,
         "impl_model_cycles": cyc,
         "configs": CFGS.get(tier)},
        ["by-value containment = every edge except those leaving Box/Vec/map/set entries",
         "the containment graph is observed twice: internal snapshot (hook) and Type::details() walk from add_type(&{$ref})",
         "compile + round-trip half of C07 is exercised by the generated-code checks (C01/C03) on recursive shapes"],
        replay_of)
