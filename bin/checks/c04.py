"""C04 - Rust -> schemars schema -> typify type is wire compatible with the original."""
import os, re, time, json, shutil, subprocess
import vlib

PROP = "C04"
ORIGIN = os.path.join(vlib.BUILD, "c04", "origin")
ORIGIN_TARGET = os.path.join(vlib.BUILD, "target-c04")
DERIVE = "#[derive(Serialize, Deserialize, JsonSchema, Debug, Clone, PartialEq)]"


DEFAULT_FNS = {"i64": "dflt_i64", "String": "dflt_string", "Option<String>": "dflt_opt_string",
               "Option<Inner>": "dflt_opt_inner", "Vec<i64>": "dflt_vec", "Kind": "dflt_kind", "Inner": "dflt_inner"}


def rust_def(d):
    """abstract definition (MC_C04) -> Rust source of `T`"""
    cont = []
    if "deny_unknown_fields" in d.get("container", []):
        cont.append("deny_unknown_fields")
    if "rename_all_camel" in d.get("container", []):
        cont.append('rename_all = "camelCase"')
    if "rename_all_kebab" in d.get("container", []):
        cont.append('rename_all = "SCREAMING-KEBAB-CASE"')

    def field(f):
        a = []
        if "default" in f["attrs"]:
            a.append("default")
        if "default_fn" in f["attrs"]:
            a.append('default = "%s"' % DEFAULT_FNS[f["ty"]])
        if "skip_none" in f["attrs"]:
            a.append('skip_serializing_if = "Option::is_none"')
        if "rename" in f["attrs"]:
            a.append('rename = "renamedField"')
        attr = ("    #[serde(%s)]\n" % ", ".join(a)) if a else ""
        return "%s    pub %s: %s,\n" % (attr, f["name"], f["ty"])

    if d["kind"] == "struct":
        s = DERIVE + "\n" + (("#[serde(%s)]\n" % ", ".join(cont)) if cont else "")
        return s + "pub struct T {\n" + "".join(field(f) for f in d["fields"]) + "}\n"
    if d["kind"] == "tuple_struct":
        if not d["tys"]:
            return DERIVE + "\npub struct T;\n"
        return DERIVE + "\npub struct T(%s);\n" % ", ".join("pub " + t for t in d["tys"])
    tag = {"external": [], "internal": ['tag = "type"'], "adjacent": ['tag = "t"', 'content = "c"'],
           "untagged": ["untagged"]}[d["tagging"]]
    attrs = tag + cont
    s = DERIVE + "\n" + (("#[serde(%s)]\n" % ", ".join(attrs)) if attrs else "") + "pub enum T {\n"
    for v in d["variants"]:
        if v["vkind"] == "unit":
            s += "    %s,\n" % v["name"]
        elif v["vkind"] in ("newtype", "tuple"):
            s += "    %s(%s),\n" % (v["name"], ", ".join(v["tys"]))
        else:
            s += "    %s {\n%s    },\n" % (v["name"], "".join("    " + field(f).replace("pub ", "") for f in v["fields"]))
    return s + "}\n"


def write_origin(cases):
    os.makedirs(os.path.join(ORIGIN, "src"), exist_ok=True)
    src = open(os.path.join(vlib.VERIF, "harness", "origin-template", "prelude.rs")).read()
    for i, c in enumerate(cases):
        src += "pub mod c%d {\n    use super::*;\n%s}\n" % (i + 1, "".join("    " + l + "\n" for l in rust_def(c["def"]).splitlines()))
    arms_emit = "".join("    emit_schema::<c%d::T>(%d);\n" % (i + 1, i + 1) for i in range(len(cases)))
    arms_canon = "".join("            %d => canon_one::<c%d::T>(case, cand, &r[\"val\"]),\n" % (i + 1, i + 1) for i in range(len(cases)))
    arms_back = "".join("            %d => back_one::<c%d::T>(&r),\n" % (i + 1, i + 1) for i in range(len(cases)))
    src += """
fn main() {
    let args: Vec<String> = std::env::args().collect();
    match args[1].as_str() {
        "emit" => {
%s        }
        "canon" => for r in lines(&args[2]) {
            let case = r["case"].as_u64().unwrap();
            let cand = r["cand"].as_u64().unwrap();
            match case {
%s                _ => {}
            }
        },
        "back" => for r in lines(&args[2]) {
            match r["case"].as_u64().unwrap() {
%s                _ => {}
            }
        },
        _ => panic!("mode"),
    }
}
""" % (arms_emit.replace("    emit", "            emit"), arms_canon, arms_back)
    mpath = os.path.join(ORIGIN, "src", "main.rs")
    if not os.path.exists(mpath) or open(mpath).read() != src:      # keep cargo's fingerprint when nothing changed
        open(mpath, "w").write(src)
    if not os.path.exists(os.path.join(ORIGIN, "Cargo.toml")):
      open(os.path.join(ORIGIN, "Cargo.toml"), "w").write(
        '[package]\nname = "c04origin"\nversion = "0.1.0"\nedition = "2021"\n\n[workspace]\n\n[dependencies]\n'
        'serde = { version = "1.0", features = ["derive"] }\nserde_json = "1.0"\nschemars = "0.8.22"\n\n'
        '[profile.dev]\nopt-level = 0\ndebug = 0\nincremental = false\n')
    open(os.path.join(ORIGIN, "rust-toolchain.toml"), "w").write('[toolchain]\nchannel = "1.80.1"\n')
    if not os.path.exists(os.path.join(ORIGIN, "Cargo.lock")):
        shutil.copy(os.path.join(vlib.REPO, "Cargo.lock"), os.path.join(ORIGIN, "Cargo.lock"))
    env = vlib.env_offline()
    env["CARGO_TARGET_DIR"] = ORIGIN_TARGET
    out, dt = vlib.sh(vlib.CARGO + ["build", "--offline"], cwd=ORIGIN, env=env, timeout=3000)
    return os.path.join(ORIGIN_TARGET, "debug", "c04origin"), dt


# ---- concrete JSON (schemars) -> abstract schema (the form SchemaLib / abs.rs use)

def char_token(ch):
    o = ord(ch)
    return ch if (32 <= o < 127 and ch != "<") else "<%x>" % o


def tag(v):
    if v is None:
        return {"t": "null"}
    if isinstance(v, bool):
        return {"t": "bool", "v": v}
    if isinstance(v, int):
        if abs(v) < 10**9:
            return {"t": "int", "v": v}
        for a, base in vlib.ANCHOR.items():
            if abs(v - base) <= 3:
                return {"t": "big", "p": {"a": a, "o": v - base}}
        return {"t": "other", "text": str(v)}
    if isinstance(v, float):
        if v == int(v) and abs(v) < 10**9:
            return {"t": "int", "v": int(v)}
        if v * 2 == int(v * 2):
            return {"t": "num", "h": int(v * 2)}
        return tag(int(v)) if v == int(v) else {"t": "other", "text": repr(v)}
    if isinstance(v, str):
        return {"t": "str", "c": [char_token(c) for c in v]}
    if isinstance(v, list):
        return {"t": "arr", "v": [tag(x) for x in v]}
    ks = sorted(v)
    return {"t": "obj", "k": ks, "v": [tag(v[k]) for k in ks]}


def abstract(s):
    if isinstance(s, bool):
        return {"bool": s}
    out = {}
    for k, v in s.items():
        if k in ("$schema", "description", "definitions", "examples", "$id"):
            continue
        if k == "$ref":
            out["ref"] = v.replace("#/definitions/", "")
        elif k == "type":
            if isinstance(v, list):
                out["types"] = v
            else:
                out["type"] = v
        elif k in ("enum",):
            out[k] = [tag(x) for x in v]
        elif k in ("const", "default"):
            out[k] = tag(v)
        elif k in ("minimum", "maximum", "exclusiveMinimum", "exclusiveMaximum", "multipleOf"):
            out[k] = tag(v)
        elif k in ("properties", "patternProperties"):
            out[k] = {pk: abstract(pv) for pk, pv in v.items()}
        elif k == "items":
            if isinstance(v, list):
                out["itemsList"] = [abstract(x) for x in v]
            else:
                out["items"] = abstract(v)
        elif k in ("additionalProperties", "additionalItems", "not", "propertyNames", "contains"):
            out[k] = abstract(v)
        elif k in ("allOf", "anyOf", "oneOf"):
            out[k] = [abstract(x) for x in v]
        else:
            out[k] = v
    return out


def run(tier, seed, replay=None):
    t0 = time.time()
    vlib.build_vdrive()
    if replay:
        cases = [json.load(open(replay))["case_line"]]
        mc_stats = {"distinct": 0, "generated": 0}
    else:
        cases, mc_stats, _ = vlib.run_mc("MC_C04.tla", "C04_%s.cfg" % tier, "C04", workers=4, timeout=3000)
    exe, build_s = write_origin(cases)
    # 1. schemas from schemars
    out, _ = vlib.sh([exe, "emit"], timeout=600)
    schemas = {}
    for line in out.splitlines():
        if line.startswith("{"):
            r = json.loads(line)
            schemas[r["case"]] = r["schema"]
    if len(schemas) != len(cases):
        raise vlib.ToolError("origin emitted %d schemas for %d types" % (len(schemas), len(cases)))
    # 2. candidates from the emitted schemas: second TLC run over the abstracted documents
    spath = os.path.join(vlib.BUILD, "C04.schemas.ndjson")
    rows = []
    for c in sorted(schemas):
        s = schemas[c]
        defs = {k: abstract(v) for k, v in s.get("definitions", {}).items()}
        defs["Root0"] = abstract(s)
        rows.append({"case": c, "defs": defs})
    vlib.write_ndjson(spath, rows)
    os.environ["SCHEMAS"] = spath
    cands, st2, _ = vlib.run_mc("MC_C04b.tla", "C04b.cfg", "C04b", workers=8, timeout=3000)
    os.environ.pop("SCHEMAS", None)
    mc_stats = dict(mc_stats)
    mc_stats["distinct"] = mc_stats.get("distinct", 0) + st2.get("distinct", 0)
    mc_stats["generated"] = mc_stats.get("generated", 0) + st2.get("generated", 0)
    # oracle self-check on the candidates' classification
    items = []
    bycase = {r["case"]: r for r in rows}
    for cl in cands:
        for p in cl["probes"]:
            items.append((bycase[cl["case"]]["defs"], "Root0", p["val"], p["valid"]))
    oc = vlib.oracle_selfcheck(items)
    if oc["n_disagree"]:
        raise vlib.ToolError("oracle self-check: Schema!Valid and jsonschema disagree on %d of %d instances, e.g. %s"
                             % (oc["n_disagree"], oc["checked"], json.dumps(oc["disagreements"][:2])))
    # 3. canonical samples through the origin types
    cpath = os.path.join(vlib.BUILD, "C04.cands.ndjson")
    with open(cpath, "w") as f:
        for cl in cands:
            for k, p in enumerate(cl["probes"]):
                f.write(json.dumps({"case": cl["case"], "cand": k + 1, "val": vlib.untag(p["val"])}) + "\n")
    out, _ = vlib.sh([exe, "canon", cpath], timeout=600)
    samples = {}
    for line in out.splitlines():
        if line.startswith("{"):
            r = json.loads(line)
            key = json.dumps(r["canon"], sort_keys=True)
            samples.setdefault(r["case"], {}).setdefault(key, r["canon"])
    # 4. typify on the emitted schema, both ingestion routes; generated types probed with the samples
    gcases, index = [], []
    for c in sorted(schemas):
        row = bycase[c]
        root = dict(row["defs"]["Root0"])
        defs = {k: v for k, v in row["defs"].items() if k != "Root0"}
        sam = list(samples.get(c, {}).values())
        probes_a = [{"kind": "deser", "ty": {"ret": 1}, "val": tag(x)} for x in sam]
        probes_b = [{"kind": "deser", "ty": {"ret": 2}, "val": tag(x)} for x in sam]
        gcases.append({"fam": "C04", "ocase": c, "route": "root", "settings": {"builder": False},
                       "calls": [{"call": "add_root_schema", "doc": {"root": root, "defs": defs}}], "probes": probes_a})
        index.append((c, "root", sam))
        # the definitions-map route: the type itself is one of the definitions, located with add_type(&{$ref})
        gcases.append({"fam": "C04", "ocase": c, "route": "defs", "settings": {"builder": False},
                       "calls": [{"call": "add_ref_types", "defs": [[k, v] for k, v in sorted(defs.items())] + [["T", root]]},
                                 {"call": "add_type", "schema": {"ref": "T"}, "hint": ""}], "probes": probes_b})
        index.append((c, "defs", sam))
    events, gst = vlib.run_gen_pipeline("C04", "deser", gcases, nshards=14, timeout=6000)
    # 5. what the generated types wrote goes back through the origin types
    bpath = os.path.join(vlib.BUILD, "C04.back.ndjson")
    nback = 0
    with open(bpath, "w") as f:
        for e in events:
            if e["ev"] == "deser" and e["ok"] and e["ser_ok"]:
                oc_, route, sam = index[e["case"] - 1]
                f.write(json.dumps({"case": oc_, "route": route, "cand": e["probe"], "canon": sam[e["probe"] - 1],
                                    "w": vlib.untag(e["out"])}) + "\n")
                nback += 1
    out, _ = vlib.sh([exe, "back", bpath], timeout=600)
    back = {}
    for line in out.splitlines():
        if line.startswith("{"):
            r = json.loads(line)
            back[(r["case"], r["route"], r["cand"])] = r
    # 6. the exchange trace: one event per (type, route, sample)
    trace = []
    by_gcase = {}
    for e in events:
        by_gcase.setdefault(e["case"], []).append(e)
    for gi, (oc_, route, sam) in enumerate(index):
        gc = gi + 1
        evs = by_gcase.get(gc, [])
        ing = [e for e in evs if e["ev"] == "ingest"]
        comp = [e for e in evs if e["ev"] == "compile"]
        generated = all(e["res"] == "ok" for e in ing) and bool(comp) and comp[0]["res"] == "ok"
        trace.append({"ev": "type", "case": oc_, "route": route, "generated": generated, "nsamples": len(sam),
                      "kind": cases[oc_ - 1]["def"]["kind"], "tagging": cases[oc_ - 1]["def"].get("tagging", ""),
                      "vkinds": [v["vkind"] for v in cases[oc_ - 1]["def"].get("variants", [])],
                      "vtys": [",".join(v["tys"]) for v in cases[oc_ - 1]["def"].get("variants", [])]})
        des = {e["probe"]: e for e in evs if e["ev"] == "deser"}
        for k in range(1, len(sam) + 1):
            e = des.get(k)
            b = back.get((oc_, route, k), {"back_ok": False, "back_equal": False})
            trace.append({"ev": "exchange", "case": oc_, "route": route, "cand": k,
                          "probed": e is not None, "accepted": bool(e and e["ok"]),
                          "back_ok": b["back_ok"], "back_equal": b["back_equal"], "sample": tag(sam[k - 1])})
    bad, tstats = vlib.run_trace("Trace_C04.tla", "Trace_C04.cfg", trace, "C04", shards=12, timeout=3000)

    def replay_of(v):
        i = v["case"] - 1
        return {"property": PROP, "diagnosis": v, "case_line": cases[i], "rust": rust_def(cases[i]["def"]),
                "schema": schemas[v["case"]], "how": "bin/check C04 --replay <this file>"}

    nsam = sum(len(v) for v in samples.values())
    return vlib.finish(
        PROP, tier, seed, t0, bad, trace, cases, mc_stats, tstats,
        {"exhaustive": replay is None,
         "rule": "every root type definition reachable in the RustUniverse machine (MC_C04: structs, tuple/newtype/unit structs, enums in "
                 "the four tagging modes with unit/newtype/tuple/struct variants, rename_all, deny_unknown_fields, default, "
                 "skip_serializing_if, rename; field types over integers, bool, String, Option, Vec, tuples, fixed arrays, Box, HashMap, "
                 "references) x every candidate document generated from the schemars schema (second TLC run, Instances!Candidates) that "
                 "the origin type itself reads and round-trips; both ingestion routes; non-trivial = (type, route, sample) exchanges",
         "distinct_nontrivial": sum(1 for e in trace if e["ev"] == "exchange"),
         "types": len(cases), "sample_values": nsam, "origin_build_s": round(build_s, 1), "generated_crates": gst,
         "oracle_selfcheck": {"checked": oc["checked"], "disagreements": oc["n_disagree"]}},
        ["sample values of an origin type are the candidate documents (generated from its schemars schema) that the origin type accepts "
         "and round-trips; equality of values is the origin type's derived PartialEq",
         "schemars 0.8.22 with default settings (draft-07) emits the schemas",
         "types whose schema typify rejects or whose output does not compile are reported as C04/NotGenerated"],
        replay_of)
