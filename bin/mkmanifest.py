#!/usr/bin/env python3
"""Regenerates /verif/MANIFEST.json from the table below (claimed checks) and
properties.jsonl (everything else goes to not_applicable with its reason)."""
import json, os
V = os.path.dirname(os.path.dirname(os.path.abspath(__file__)))
props = [json.loads(l) for l in open(os.path.join(V, "properties.jsonl"))]

CLAIMED = {
 "C10": dict(
   text="TLC enumerates every integer schema of the boundary lattice (formats x bound keywords x lattice points x multipleOf x default); each is replayed through the real add_type and the recorded outcome is validated by TLC against the C10 contract (IntSchema.tla) with probes over the whole lattice; the implementation model IntSelect.tla (a transcription of convert_integer) is judged by the same contract exhaustively and its drift from the code is measured; string and number schemas with a format (MC_C10f, every spelling: plain, nullable, through allOf) are judged by Trace_C10f against the documented format table (unrecognised formats degrade to String / f64)",
   note="bounded: lattice of type limits +-2 (quick +-1); trusted: TLC, the transcription of draft-07 numeric keywords in IntSchema.tla (cross-checked against i128 arithmetic per run), vdrive",
   ref="DESIGN.md 6 C10"),
 "C13": dict(
   text="the documented substitution policy is a TLA+ decision table (XRustPolicy.tla over Semver.tla); TLC enumerates it exhaustively (every operator/partial-version/pre-release requirement against every version with components 0..2, crate config x unknown policy x rename x parameters x malformed extensions); every cell is replayed through the real TypeSpace and the observed use-site identifier and item inventory are validated by TLC against the table",
   note="bounded: version components 0..2 (thorough 0..3), one pre-release tag; trusted: TLC, Semver.tla (cross-checked per run against crate semver), syn, vdrive",
   ref="DESIGN.md 6 C13"),
 "C16": dict(
   text="the type space is specified as a state machine over the public ingestion calls (TypeSpaceContract.tla: promised projections of returned ids, ids returned per added schema, rendered definition set); TLC enumerates every history of up to 3 (thorough 4) calls over 16 call templates, each history is replayed against the real TypeSpace with an observation after every call, and the recorded trace is validated by TLC action by action (IdStable, Idempotent, NoDupNames) plus batch independence across histories of the same group; the implementation model spec/TypeSpaceImpl.tla (next_id, id_to_entry, name_to_id, ref_to_id) is model-checked (MC_TypeSpace: index invariants, StepConforms) and every recorded call of the real TypeSpace (hook verif_snapshot) is validated by Trace_TS as a step of that model (StepOK) ending in a state that satisfies its invariants",
   note="bounded: histories <= 3 calls over 37 templates (thorough: plus seeded behaviours up to 6 calls); trusted: TLC, vdrive's observation through the public API, hook verif_snapshot",
   ref="DESIGN.md 6 C16"),
 "C07": dict(
   text="TLC enumerates every reference multigraph within the bound (n<=2 over 7 edge kinds, n=3 over a reduced alphabet) and builds the schema document in TLA+; each is ingested by the real typify and the containment graph of the generated types (internal snapshot and, independently, a Type::details() walk) is validated by TLC against Containment.tla: acyclic by value, and no Box at all when the schema graph is acyclic; a third observation is the by-value graph of the rendered items (emission stage); the implementation model Cycles.tla of break_cycles is model-checked over all small graphs (MC_Cycles) and every recorded step of the real loop (hook cycle_event) is validated against it by Trace_Cycles",
   note="bounded: number of definitions and edges; trusted: TLC, hook verif_snapshot (cross-checked against the public walk), vdrive",
   ref="DESIGN.md 6 C07"),
 "C02": dict(
   text="TLC generates, for every document of a stratified universe of the faithful fragment (Families.tla), the candidate instances (Instances.tla) and classifies them with the TLA+ draft-07 semantics (Schema.tla, cross-checked on every instance against Python jsonschema); the documents are run through the real typify, the generated code is compiled and executed on every instance, and the recorded deser events are validated by TLC against ContractSerde!C02 (valid => accepted); the implementation model spec/Exclusive.tla of the anyOf exclusivity analysis, which delimits one recorded finding, is model-checked (MC_Excl) and every one of its states is replayed into the real analysis (hook verif_all_mutually_exclusive) and validated by Trace_Excl",
   note="bounded: the quick universe (134 documents, ~3000 instances); trusted: TLC, Schema.tla (self-checked), rustc, serde, vdrive and the generated-crate support code",
   ref="DESIGN.md 6 C02"),
 "C03": dict(
   text="same pipeline and compiled types as C02; for every valid instance with declared members only, TLC validates the recorded round trip against ContractSerde!C03: output valid under the schema, declared data contained (modulo pruned null/[]/{}), additions only where a schema or intrinsic default allows, second round trip identical",
   note="bounded as C02; trusted: as C02",
   ref="DESIGN.md 6 C03"),
 "C01": dict(
   text="TLC enumerates (document, settings, ingestion history) states over the faithful universe plus generation-stress families; each is replayed through the real TypeSpace, the output is parsed with syn, written into sharded crates and type-checked by rustc with compile errors attributed per case; the recorded ingest/render/compile events are validated by TLC against ContractModule!C01 (accepted => renders, parses, no duplicate items/fields/variants/impls, compiles; supported documents are not rejected)",
   note="bounded: 178 documents x 2 (thorough 6) settings vectors x 2 (4) histories; type-checking is rustc's verdict; trusted: TLC, syn, rustc 1.80.1, vdrive",
   ref="DESIGN.md 6 C01"),
 "C17": dict(
   text="on the C01 pipeline, every type yielded by iter_types() (name, ident, properties/variants/inner, builder, has_impl, uses_*) is compared by TLC (ContractIntro!C17) with the syn inventory of the rendered module and with rustc's verdict on one trait-bound assertion per claimed impl",
   note="bounded as C01; trusted: TLC, syn, rustc, vdrive (row ids from the snapshot hook)",
   ref="DESIGN.md 6 C17"),
 "C19": dict(
   text="on the C01 pipeline, every named item of every compiled module is checked by TLC (ContractIntro!C19) for `pub` and for rustc's verdict on the promised trait-bound assertions (Debug+Clone+Serialize+DeserializeOwned+From<&T>; Copy/Eq/Ord/Hash for data-less enums; Eq/Ord/Hash for String newtypes)",
   note="bounded as C01; trusted: TLC, syn, rustc, vdrive",
   ref="DESIGN.md 6 C19"),
 "C05": dict(
   text="TLC generates candidate instances for every document of the enforced-construct universe and classifies them with Schema!Valid and ContractSerde!EnforcedViolation (exactly the constraint kinds the property lists); the compiled generated types are run on every candidate and on every probe string; TLC validates the recorded events: an instance violating an enforced constraint is rejected, FromStr/TryFrom agree with Deserialize, and constrained newtypes expose no public field or From<inner>",
   note="bounded: ~100 documents, ~3000 instances/probe strings; trusted: TLC, Schema.tla (self-checked against jsonschema), rustc, serde, syn, vdrive",
   ref="DESIGN.md 6 C05"),
 "C11": dict(
   text="on the C05 pipeline: for every string-like type (enums with odd/renamed/keyword values, plain and constrained string newtypes, untagged enums of string alternatives, formatted natives) and every probe string, TLC validates that each conversion the rendered output offers (FromStr, TryFrom<&str>, TryFrom<String>, TryFrom<&String>) succeeds exactly when deserialising the JSON string does, with the same value, and that Display equals the serialised string",
   note="bounded as C05; conversions are probed only where the syn inventory shows the impl; trusted: TLC, rustc, serde, syn, vdrive",
   ref="DESIGN.md 6 C11"),
 "C06": dict(
   text="TLC enumerates (type kind, default value, position) cases, classifies each default with Schema!Valid on the site's schema (cross-checked against jsonschema) and the real typify ingests the document; the generated code is compiled and the three realisation sites are executed (deserialising an object without the member, Default::default(), the empty builder); TLC validates the recorded events against the C06 contract: an invalid default makes ingestion fail, a valid accepted default neither breaks rendering nor compilation and every realisation equals the schema default up to nested defaults and is valid",
   note="bounded: 73 (kind, value) pairs x 2 positions; trusted: TLC, Schema.tla (self-checked), rustc, serde, vdrive",
   ref="DESIGN.md 6 C06"),
 "C18": dict(
   text="the builder is specified as a state machine (ContractBuilder.tla: one slot per property, Set with convertible / inconvertible argument, Build); TLC explores every history of setter calls within the bound for four struct shapes, each history is compiled into a driver against the real generated builder and run, and the recorded result is validated by TLC by replaying the history through the contract's actions: success iff every non-defaulted property set and no failed conversion, error names a failing property, built value equals serde's value for the same members, struct -> builder -> struct is the identity",
   note="bounded: 4 structs, histories of <= 3 (thorough 4) setter calls; trusted: TLC, rustc, serde, vdrive",
   ref="DESIGN.md 6 C18"),
 "C09": dict(
   text="TLC enumerates allOf compositions (2-3 subschemas over objects, references, enums, types, arrays, nested oneOf, unsatisfiable conjunctions), builds one definition per permutation and the candidate instances (per-branch instances, their unions), classifies them with Schema!Valid on the allOf itself; the compiled types are run on every (permutation, candidate); TLC validates the recorded acceptance matrix: valid under all subschemas => accepted by every permutation, all permutations agree on acceptance and round-trip output, and a conjunction that merging reports as never (hook) with no valid candidate accepts nothing",
   note="bounded: 21 compositions, all permutations, ~40 candidates each; trusted: TLC, Schema.tla (self-checked), hook verif_merge_all, rustc, serde, vdrive",
   ref="DESIGN.md 6 C09"),
 "C14": dict(
   text="TLC explores the settings-vector machine of MC_C14 (replacement | patch of the target definition, conversion schema, global derive, builder, three map types) over a document that uses the target and the conversion schema through every use-site kind; each case is rendered by the real typify, compiled and its unaffected types are executed; TLC validates the syn inventory against ContractSettings (replaced definition absent and replacement named at every use, allOf merged structurally, patched name and derives everywhere, conversion type at every equal subschema, global derive on every type, configured map type everywhere except string-to-any maps) and compares the acceptance/round-trip vectors of unaffected types with the default-settings baseline",
   note="bounded: 72 settings vectors x one hub document with 16 use sites; trusted: TLC, syn, rustc, serde, vdrive",
   ref="DESIGN.md 6 C14"),
 "C12": dict(
   text="for every (document, settings, history) case enumerated by TLC (MC_C01) the real generator is run in several fresh processes (fresh hash seeds) on several encodings of the same document (object key order sorted / reversed / rotated, compact / spaced text) and twice on one type space; TLC validates the recorded digests against the C12 contract (all runs of a case equal, re-rendering identical)",
   note="hash-seed dependence is sampled by fresh processes (3 quick / 6 thorough per case), not enumerated; trusted: TLC, vdrive, 64-bit digest",
   ref="DESIGN.md 6 C12"),
 "C08": dict(
   text="TLC explores a name-growing machine over a representative alphabet (all strings up to length 2, thorough 3; the Rust keyword list in three casings; all pairs up to the pair bound plus a pool of case/separator variants); each name (pair) is used as property name, enumerated value and definition key in a document ingested by the real typify, rendered, parsed with syn, compiled and executed on an instance keyed by the original names; TLC validates the recorded events: rejected at add time, or valid distinct identifiers (parse + compile + no duplicate in the inventory), wire names equal to the original names, and an unchanged round trip",
   note="bounded: alphabet of 15 representative characters, length <= 2/3; trusted: TLC, syn, rustc, serde, vdrive",
   ref="DESIGN.md 6 C08"),
 "C15": dict(
   text="TLC explores the option-vector machine of MC_C15 (one action per front-end option, plus invalid invocations) and judges the implementation model of the crate-specifier parsers (Frontends.tla) in every state; every vector is run through the real cargo-typify binary built from /repo (all output modes for the base vector) and through import_types! expanded by rustc (-Zunpretty=expanded) next to the builder output expanded the same way; TLC validates the recorded events against ContractCli (exit status, files before/after, stdout, default .rs path, `-` to stdout, nothing written on failure) and token equality of the items with the builder's",
   note="bounded: option vectors within 1 (thorough 2) option steps over one schema exercising every option; trusted: TLC, syn, rustc -Zunpretty=expanded, rustfmt, vdrive",
   ref="DESIGN.md 6 C15"),
 "C04": dict(
   text="TLC explores the RustUniverse machine (serde-derivable type definitions: structs, tuple/newtype/unit structs, enums under the four tagging modes with every variant kind, rename_all, deny_unknown_fields, default, skip_serializing_if, rename, field types over containers/tuples/arrays/boxes/maps/references); the definitions are compiled with serde+schemars derives into an origin crate that emits their schemas; a second TLC run generates candidate documents from each emitted schema; those the origin type itself reads and round-trips are the sample values; typify ingests each schema by both routes (root document, definitions map), the generated types are compiled and run on the samples, and the origin types re-read what they wrote; TLC validates the exchange trace: every type generated, every sample accepted and returned equal (origin PartialEq), routes agree",
   note="bounded: 416 type definitions quick (one field / two variants / one attribute), 4646 thorough; trusted: TLC, serde, schemars 0.8.22, rustc, vdrive, Schema.tla (self-checked) for candidate generation only",
   ref="DESIGN.md 6 C04"),
}
NA_REASON = {}
DEFAULT_NA = "check under construction in this session (DESIGN.md 11); not yet claimed"

checks = []
for p in props:
    i = p["id"]
    if i in CLAIMED:
        c = CLAIMED[i]
        checks.append({
            "property_id": i,
            "quick_cmd": "bin/check %s --tier quick" % i,
            "thorough_cmd": "bin/check %s --tier thorough" % i,
            "evidence_file": "evidence/%s.json" % i,
            "replay_cmd_template": "bin/check %s --replay {path}" % i,
            "engine": "tlc",
            "level_claimed": {"category": c.get("category", "model_checking"), "text": c["text"], "design_ref": c["ref"]},
            "level_note": c["note"],
            "technique": c.get("technique", "explicit TLA+ specification: TLC-enumerated cases replayed into the real code, recorded trace validated by TLC against the contract"),
        })
m = {
 "version": 1,
 "setup_cmd": "bin/setup",
 "hooks": {"guard": "cargo feature `verif-hooks` of typify-impl",
           "enable": "harness crates depend on /repo/typify-impl with features=[\"verif-hooks\"] (path dependency, rebuilt from the working tree by every check)",
           "baseline_off_cmd": "cd /repo && cargo test --workspace --no-fail-fast --offline",
           "source_commits": ["e1f558d", "efea458", "24ee8b3"],
           "add_only": True},
 "engines": [
   {"name": "tlc", "path": "bin/tlc.sh", "serves_properties": sorted(CLAIMED),
    "kind_free_text": "TLC model checker on explicit TLA+ specifications (spec/, mc/): bounded exhaustive model runs that emit cases, and trace validation of events recorded from the real code"},
   {"name": "vdrive", "path": "harness/vdrive", "serves_properties": sorted(CLAIMED),
    "kind_free_text": "Rust driver linking /repo/typify-impl (hooks on): replays TLC cases through the real API, compiles and runs generated code, records NDJSON events"}],
 "checks": checks,
 "not_applicable": [{"property_id": p["id"], "reason": NA_REASON.get(p["id"], DEFAULT_NA)}
                    for p in props if p["id"] not in CLAIMED],
 "notes": "see DESIGN.md; known_findings.json lists recorded findings; bin/check <id> --tier quick|thorough",
}
json.dump(m, open(os.path.join(V, "MANIFEST.json"), "w"), indent=1)
print("claimed:", sorted(CLAIMED))
