#!/bin/sh
# run every thorough tier once from this checkout; summary to thorough.summary
cd "$(dirname "$0")/.." 2>/dev/null || cd .
for p in C01 C04 C06 C07 C08 C09 C10 C12 C13 C14 C15 C16 C17 C18 C19 C05 C11 C02 C03; do
  s=$(date +%s); bin/check $p --tier thorough > th.$p.out 2> th.$p.err; rc=$?
  echo "$p rc=$rc $(( $(date +%s) - s ))s viol=$(grep -c '^VIOLATION' th.$p.out) known=$(grep -c '^KNOWN' th.$p.out) notes=$(grep -c '^NOTE' th.$p.err)"
done
