//! Foreign derive macros that share their short names with derives typify emits itself
//! (`Serialize`, `Deserialize`, `Debug`, `Clone`) and generate nothing: a caller may add
//! `::fderive::Serialize` as an extra derive, and the types must still get the real ones (C19).
use proc_macro::TokenStream;

#[proc_macro_derive(Serialize)]
pub fn serialize(_: TokenStream) -> TokenStream {
    TokenStream::new()
}
#[proc_macro_derive(Deserialize)]
pub fn deserialize(_: TokenStream) -> TokenStream {
    TokenStream::new()
}
#[proc_macro_derive(Debug)]
pub fn debug(_: TokenStream) -> TokenStream {
    TokenStream::new()
}
#[proc_macro_derive(Clone)]
pub fn clone(_: TokenStream) -> TokenStream {
    TokenStream::new()
}
