// Support code linked into every generated probe crate (hand written; not
// produced by typify).  Tagged JSON (see /verif/harness/vdrive/src/abs.rs),
// event emission and the generic probe runners.
#![allow(dead_code)]
use serde_json::{json, Value};

pub const ANCHORS: &[(&str, i128)] = &[
    ("i64min", i64::MIN as i128), ("i32min", i32::MIN as i128), ("i16min", i16::MIN as i128),
    ("i8min", i8::MIN as i128), ("zero", 0), ("i8max", i8::MAX as i128), ("u8max", u8::MAX as i128),
    ("i16max", i16::MAX as i128), ("u16max", u16::MAX as i128), ("i32max", i32::MAX as i128),
    ("u32max", u32::MAX as i128), ("i64max", i64::MAX as i128), ("u64max", u64::MAX as i128),
];

fn value_point(n: i128) -> Option<Value> {
    let mut best: Option<(&str, i128)> = None;
    for (name, base) in ANCHORS {
        let d = n - base;
        if d.abs() <= 3 && best.map(|(_, bd)| d.abs() < bd.abs()).unwrap_or(true) {
            best = Some((name, d));
        }
    }
    best.map(|(a, o)| json!({"a": a, "o": o as i64}))
}

pub fn char_token(c: char) -> String {
    if c.is_ascii() && !c.is_ascii_control() && c != '<' { c.to_string() } else { format!("<{:x}>", c as u32) }
}
pub fn str_tokens(s: &str) -> Value {
    Value::Array(s.chars().map(|c| Value::String(char_token(c))).collect())
}

pub fn tag(v: &Value) -> Value {
    match v {
        Value::Null => json!({"t": "null"}),
        Value::Bool(b) => json!({"t": "bool", "v": b}),
        Value::Number(n) => {
            if let Some(i) = n.as_i64() {
                if i.unsigned_abs() < 1_000_000_000 {
                    return json!({"t": "int", "v": i});
                }
            }
            let exact: Option<i128> = n.as_i64().map(|x| x as i128).or_else(|| n.as_u64().map(|x| x as i128));
            if let Some(x) = exact {
                if let Some(p) = value_point(x) {
                    return json!({"t": "big", "p": p});
                }
                return json!({"t": "other", "text": n.to_string()});
            }
            let f = n.as_f64().unwrap();
            let h = f * 2.0;
            if h.fract() == 0.0 && h.abs() < 1.0e9 {
                if (h as i64) % 2 == 0 { json!({"t": "int", "v": (h as i64) / 2}) } else { json!({"t": "num", "h": h as i64}) }
            } else {
                json!({"t": "other", "text": n.to_string()})
            }
        }
        Value::String(s) => json!({"t": "str", "c": str_tokens(s)}),
        Value::Array(a) => json!({"t": "arr", "v": a.iter().map(tag).collect::<Vec<_>>()}),
        Value::Object(o) => {
            let mut ks: Vec<&String> = o.keys().collect();
            ks.sort();
            json!({"t": "obj",
                   "k": ks.iter().map(|k| Value::String((*k).clone())).collect::<Vec<_>>(),
                   "v": ks.iter().map(|k| tag(&o[*k])).collect::<Vec<_>>()})
        }
    }
}

pub fn emit(v: Value) {
    println!("{}", v);
}

const NA: &str = "na";
fn tagged_na() -> Value { json!({"t": "na"}) }

/// run one probe; a panic inside generated code is data
pub fn guard(case: u64, probe: u64, f: impl FnOnce()) {
    let r = std::panic::catch_unwind(std::panic::AssertUnwindSafe(f));
    if r.is_err() {
        emit(json!({"ev": "probe_panic", "case": case, "probe": probe}));
    }
}

/// deserialise, serialise, and round-trip once more
pub fn p_deser<T: serde::de::DeserializeOwned + serde::Serialize>(case: u64, probe: u64, text: &str) {
    let mut ev = json!({"ev": "deser", "case": case, "probe": probe, "ok": false, "rt_equal": false,
                        "ser_ok": false, "out": tagged_na(), "rt2_ok": false, "out2": tagged_na()});
    if let Ok(x) = serde_json::from_str::<T>(text) {
        ev["ok"] = json!(true);
        if let Ok(w) = serde_json::to_value(&x) {
            ev["ser_ok"] = json!(true);
            // the serialised value equals the input document (same keys, same values)
            ev["rt_equal"] = json!(serde_json::from_str::<Value>(text).ok().as_ref() == Some(&w));
            ev["out"] = tag(&w);
            if let Ok(x2) = serde_json::from_value::<T>(w) {
                if let Ok(w2) = serde_json::to_value(&x2) {
                    ev["rt2_ok"] = json!(true);
                    ev["out2"] = tag(&w2);
                }
            }
        }
    }
    emit(ev);
}

/// same value: equal on the wire and equal under Debug (two variants of an untagged enum can
/// serialise identically, Debug tells them apart; every generated type derives Debug)
fn same<T: serde::Serialize + std::fmt::Debug>(a: &Option<T>, b: &Option<T>) -> bool {
    match (a, b) {
        (Some(x), Some(y)) => {
            serde_json::to_value(x).ok() == serde_json::to_value(y).ok() && format!("{:?}", x) == format!("{:?}", y)
        }
        _ => true,
    }
}

/// string conversions next to serde on one probe string
#[allow(clippy::too_many_arguments)]
pub fn p_str<T: serde::de::DeserializeOwned + serde::Serialize + std::fmt::Debug>(
    case: u64, probe: u64, s: &str,
    fromstr: Option<&dyn Fn(&str) -> Option<T>>,
    tf_str: Option<&dyn Fn(&str) -> Option<T>>,
    tf_string: Option<&dyn Fn(String) -> Option<T>>,
    tf_refstring: Option<&dyn Fn(&String) -> Option<T>>,
    display: Option<&dyn Fn(&T) -> String>,
) {
    let d: Option<T> = serde_json::from_value::<T>(Value::String(s.to_string())).ok();
    let conv = |have: bool, r: Option<Option<T>>| -> Value {
        match r {
            None => json!({"have": have, "ok": false, "same": true}),
            Some(v) => json!({"have": true, "ok": v.is_some(), "same": same(&v, &d)}),
        }
    };
    let fs = fromstr.map(|f| f(s));
    let t1 = tf_str.map(|f| f(s));
    let t2 = tf_string.map(|f| f(s.to_string()));
    let t3 = tf_refstring.map(|f| f(&s.to_string()));
    // Display against serialisation, on the value obtained by deserialisation
    let (dhave, dtext, dser, dser_is_str) = match (&d, display) {
        (Some(x), Some(f)) => {
            let w = serde_json::to_value(x).unwrap_or(Value::Null);
            (true, f(x), w.as_str().unwrap_or("").to_string(), w.is_string())
        }
        _ => (display.is_some(), String::new(), String::new(), true),
    };
    emit(json!({
        "ev": "str", "case": case, "probe": probe, "s": str_tokens(s),
        "deser_ok": d.is_some(),
        "fromstr": conv(false, fs), "tf_str": conv(false, t1), "tf_string": conv(false, t2), "tf_refstring": conv(false, t3),
        "display": {"have": dhave, "applies": d.is_some() && display.is_some(),
                    "text": str_tokens(&dtext), "ser": str_tokens(&dser), "ser_is_str": dser_is_str},
    }));
}

pub fn p_default<T: Default + serde::Serialize>(case: u64, probe: u64, site: &str) {
    let x = T::default();
    let w = serde_json::to_value(&x);
    emit(json!({"ev": "default", "case": case, "probe": probe, "site": site,
                "ser_ok": w.is_ok(), "out": w.map(|w| tag(&w)).unwrap_or(tagged_na())}));
}

/// result of a builder run
/// `fields`: the identifiers of the struct's fields; the event records which of them the
/// error message names as whole words (strings are atomic for TLC)
pub fn p_built<T: serde::Serialize, E: std::fmt::Display>(case: u64, probe: u64, r: Result<T, E>, fields: &[&str]) {
    match r {
        Ok(x) => {
            let w = serde_json::to_value(&x);
            emit(json!({"ev": "builder", "case": case, "probe": probe, "ok": true, "msg": "", "mentions": [],
                        "out": w.map(|w| tag(&w)).unwrap_or(tagged_na())}));
        }
        Err(e) => {
            let msg = e.to_string();
            let words: Vec<&str> = msg.split(|c: char| !(c.is_alphanumeric() || c == '_')).collect();
            let mentions: Vec<&str> = fields.iter().copied().filter(|f| words.contains(f)).collect();
            emit(json!({"ev": "builder", "case": case, "probe": probe, "ok": false,
                        "msg": msg, "mentions": mentions, "out": tagged_na()}))
        }
    }
}

/// A third map type for the map-type setting (C14): the documented
/// requirements are is_empty, two generic parameters, Default + Clone + Debug
/// + Serialize + Deserialize.
#[derive(Clone, Debug, PartialEq, Eq, serde::Serialize, serde::Deserialize)]
#[serde(transparent)]
pub struct MyMap<K: Ord, V>(pub std::collections::BTreeMap<K, V>);
impl<K: Ord, V> Default for MyMap<K, V> {
    fn default() -> Self {
        MyMap(std::collections::BTreeMap::new())
    }
}
impl<K: Ord, V> MyMap<K, V> {
    pub fn is_empty(&self) -> bool {
        self.0.is_empty()
    }
}

/// Hand-written types used as replacement / conversion targets (C14).
#[derive(Clone, Debug, PartialEq, serde::Serialize, serde::Deserialize)]
pub struct ReplT {
    pub q: i64,
}
#[derive(Clone, Debug, PartialEq, serde::Serialize, serde::Deserialize)]
#[serde(transparent)]
pub struct Num(pub f64);
impl std::fmt::Display for Num {
    fn fmt(&self, f: &mut std::fmt::Formatter<'_>) -> std::fmt::Result {
        self.0.fmt(f)
    }
}

/// A string-like external type that implements FromStr but not Display (C17 conversions).
#[derive(Clone, Debug, PartialEq, serde::Serialize, serde::Deserialize)]
#[serde(transparent)]
pub struct PathLike(pub String);
impl std::str::FromStr for PathLike {
    type Err = std::convert::Infallible;
    fn from_str(s: &str) -> Result<Self, Self::Err> {
        Ok(PathLike(s.to_string()))
    }
}
/// A string-like external type with FromStr whose Display is NOT its wire form (C11: a type that
/// only declares FromStr must not lend its Display to a generated type).
#[derive(Clone, Debug, PartialEq, serde::Serialize, serde::Deserialize)]
#[serde(transparent)]
pub struct Skewed(pub String);
impl std::str::FromStr for Skewed {
    type Err = std::convert::Infallible;
    fn from_str(s: &str) -> Result<Self, Self::Err> {
        Ok(Skewed(s.to_string()))
    }
}
impl std::fmt::Display for Skewed {
    fn fmt(&self, f: &mut std::fmt::Formatter<'_>) -> std::fmt::Result {
        write!(f, "<{}>", self.0)
    }
}
/// ... and one with Display but not FromStr
#[derive(Clone, Debug, PartialEq, serde::Serialize, serde::Deserialize)]
#[serde(transparent)]
pub struct ShowOnly(pub String);
impl std::fmt::Display for ShowOnly {
    fn fmt(&self, f: &mut std::fmt::Formatter<'_>) -> std::fmt::Result {
        self.0.fmt(f)
    }
}

/// ... and one with both
#[derive(Clone, Debug, PartialEq, serde::Serialize, serde::Deserialize)]
#[serde(transparent)]
pub struct Both(pub String);
impl std::fmt::Display for Both {
    fn fmt(&self, f: &mut std::fmt::Formatter<'_>) -> std::fmt::Result {
        self.0.fmt(f)
    }
}
impl std::str::FromStr for Both {
    type Err = std::convert::Infallible;
    fn from_str(s: &str) -> Result<Self, Self::Err> {
        Ok(Both(s.to_string()))
    }
}
