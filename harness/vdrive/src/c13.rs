//! C13: x-rust-type decision table.
use crate::{guarded, inv, read_cases, Out};
use serde_json::{json, Value};
use typify_impl::{CrateVers, TypeDetails, TypeSpace, TypeSpaceSettings, UnknownPolicy};

fn ver_text(v: &Value, partial: bool) -> String {
    let mut s = v["M"].as_i64().unwrap().to_string();
    let m = v["m"].as_i64().unwrap();
    let p = v["p"].as_i64().unwrap();
    if !partial || m >= 0 {
        s.push_str(&format!(".{}", m.max(0)));
        if !partial || p >= 0 {
            s.push_str(&format!(".{}", p.max(0)));
        }
    }
    let pre = v["pre"].as_str().unwrap();
    if !pre.is_empty() {
        s.push_str(&format!("-{}", pre));
    }
    s
}

pub fn req_text(req: &Value) -> String {
    let cs = req.as_array().unwrap();
    if cs.is_empty() {
        return "*".to_string();
    }
    cs.iter()
        .map(|c| {
            let op = c["op"].as_str().unwrap();
            if op == "wild" {
                let m = c["m"].as_i64().unwrap();
                if m >= 0 {
                    format!("{}.{}.*", c["M"], m)
                } else {
                    format!("{}.*", c["M"])
                }
            } else {
                let pre = match op {
                    "caret" => {
                        if c["w"].as_str() == Some("implicit") {
                            ""
                        } else {
                            "^"
                        }
                    }
                    "tilde" => "~",
                    "eq" => "=",
                    "gt" => ">",
                    "ge" => ">=",
                    "lt" => "<",
                    "le" => "<=",
                    _ => panic!("op {}", op),
                };
                format!("{}{}", pre, ver_text(c, true))
            }
        })
        .collect::<Vec<_>>()
        .join(", ")
}

fn param_schema(t: &str) -> Value {
    match t {
        "::std::string::String" => json!({"type": "string"}),
        "i64" => json!({"type": "integer"}),
        "P" => json!({"$ref": "#/definitions/P"}),
        // the definition that holds the annotated schema: a reference cycle through a parameter
        "User" => json!({"$ref": "#/definitions/User"}),
        _ => panic!("param {}", t),
    }
}

pub fn settings_for(c: &Value) -> TypeSpaceSettings {
    let mut st = TypeSpaceSettings::default();
    let cfg = &c["cfg"];
    let kind = cfg["kind"].as_str().unwrap();
    let rename = cfg["rename"].as_str().unwrap().to_string();
    let rn = if rename.is_empty() { None } else { Some(&rename) };
    let crate_name = c["ext"]["crate"].as_str().unwrap();
    match kind {
        "absent" => {}
        "any" => {
            st.with_crate(crate_name, CrateVers::Any, rn);
        }
        "never" => {
            st.with_crate(crate_name, CrateVers::Never, rn);
        }
        "version" => {
            let v = semver::Version::parse(&ver_text(&cfg["ver"], false)).unwrap();
            st.with_crate(crate_name, CrateVers::Version(v), rn);
        }
        _ => panic!("cfg kind"),
    }
    st.with_unknown_crates(match c["policy"].as_str().unwrap() {
        "generate" => UnknownPolicy::Generate,
        "allow" => UnknownPolicy::Allow,
        "deny" => UnknownPolicy::Deny,
        _ => panic!("policy"),
    });
    st
}

pub fn document(c: &Value) -> Value {
    let x = &c["ext"];
    let mut ext = serde_json::Map::new();
    ext.insert("crate".into(), x["crate"].clone());
    if x["hasVersion"].as_bool().unwrap() {
        let t = if x["reqOk"].as_bool().unwrap() {
            req_text(&x["req"])
        } else {
            "not a requirement".to_string()
        };
        ext.insert("version".into(), json!(t));
    }
    ext.insert(
        "path".into(),
        json!(format!("{}{}", x["head"].as_str().unwrap(), x["rest"].as_str().unwrap())),
    );
    let params: Vec<Value> = x["params"]
        .as_array()
        .unwrap()
        .iter()
        .map(|p| param_schema(p.as_str().unwrap()))
        .collect();
    if !params.is_empty() {
        ext.insert("parameters".into(), Value::Array(params));
    }
    let def = c["def"].as_str().unwrap();
    let mut defs = serde_json::Map::new();
    let mut annotated = json!({"type": "object", "properties": {"inner": {"type": "string"}},
                               "x-rust-type": Value::Object(ext)});
    // "dflt": the annotated definition also carries a default
    if c.get("dflt").and_then(|d| d.as_bool()).unwrap_or(false) {
        annotated["default"] = json!({"inner": "d"});
    }
    defs.insert(def.to_string(), annotated);
    defs.insert("P".into(), json!({"type": "object", "properties": {"q": {"type": "string"}}}));
    defs.insert(
        "User".into(),
        json!({"type": "object", "properties": {"f": {"$ref": format!("#/definitions/{}", def)}},
               "required": ["f"]}),
    );
    json!({"definitions": Value::Object(defs)})
}

pub fn run(cases: &str, events: &str) {
    let cases = read_cases(cases);
    let mut out = Out::new(events);
    for (i, case) in cases.iter().enumerate() {
        let c = &case["c"];
        let doc = document(c);
        let settings = settings_for(c);
        let r = guarded(|| {
            let root: schemars::schema::RootSchema = serde_json::from_value(doc.clone()).unwrap();
            let mut ts = TypeSpace::new(&settings);
            if ts.add_root_schema(root).is_err() {
                return ("err".to_string(), String::new(), vec![]);
            }
            let mut use_ty = String::new();
            for t in ts.iter_types() {
                if let TypeDetails::Struct(s) = t.details() {
                    if t.name() == "User" {
                        for (n, id) in s.properties() {
                            if n == "f" {
                                use_ty = inv::norm_tokens(&ts.get_type(&id).unwrap().ident());
                            }
                        }
                    }
                }
            }
            let items = match inv::inventory(ts.to_stream()) {
                Err(_) => return ("unparsable".to_string(), use_ty, vec![]),
                Ok(items) => items,
            };
            let rows: Vec<Value> = items
                .iter()
                .filter(|it| it["mod"] == "" && (it["kind"] == "struct" || it["kind"] == "enum"))
                .map(|it| {
                    let fs = it["fields"].as_array().unwrap();
                    json!({
                        "name": it["name"],
                        "shape": if it["kind"] == "enum" { json!("enum") } else { it["shape"].clone() },
                        "nf": fs.len(),
                        "f0": fs.first().map(|f| f["ty"].clone()).unwrap_or(json!("")),
                    })
                })
                .collect();
            ("ok".to_string(), use_ty, rows)
        });
        let (res, use_ty, rows) = r.unwrap_or(("panic".to_string(), String::new(), vec![]));
        // oracle self-check material: the semver crate's own verdict
        let x = &c["ext"];
        let sem = if c["cfg"]["kind"] == "version" && x["reqOk"].as_bool().unwrap() {
            let req = semver::VersionReq::parse(&req_text(&x["req"]));
            let v = semver::Version::parse(&ver_text(&c["cfg"]["ver"], false)).unwrap();
            match req {
                Ok(r) => json!({"applicable": true, "matches": r.matches(&v)}),
                Err(_) => json!({"applicable": false, "matches": false}),
            }
        } else {
            json!({"applicable": false, "matches": false})
        };
        out.ev(json!({"ev": "xrust", "case": i + 1, "c": c, "res": res, "use_ty": use_ty,
                      "items": rows, "semver": sem}));
    }
}
