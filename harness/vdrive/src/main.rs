//! vdrive: replays TLC-generated cases through the real typify-impl (linked
//! from /repo's working tree, feature `verif-hooks`) and records one NDJSON
//! event per step for trace validation by TLC.
mod abs;
mod c07;
mod c10;
mod excl;
mod c12;
mod c13;
mod c15;
mod c16;
mod doc;
mod gen;
mod inv;

use std::io::{BufRead, BufReader, Write};

pub fn read_cases(path: &str) -> Vec<serde_json::Value> {
    let f = std::fs::File::open(path).unwrap_or_else(|e| panic!("open {}: {}", path, e));
    BufReader::new(f)
        .lines()
        .map(|l| l.unwrap())
        .filter(|l| !l.trim().is_empty())
        .map(|l| serde_json::from_str(&l).unwrap_or_else(|e| panic!("bad case line {}: {}", l, e)))
        .collect()
}

pub struct Out {
    w: std::io::BufWriter<std::fs::File>,
}
impl Out {
    pub fn new(path: &str) -> Self {
        Out {
            w: std::io::BufWriter::new(std::fs::File::create(path).unwrap()),
        }
    }
    pub fn ev(&mut self, v: serde_json::Value) {
        serde_json::to_writer(&mut self.w, &v).unwrap();
        self.w.write_all(b"\n").unwrap();
    }
}

/// Run a closure, turning a panic into Err(message). typify uses panics as a
/// rejection style in places; a panic in the code under test is data.
thread_local! { static IN_GUARD: std::cell::Cell<u32> = std::cell::Cell::new(0); }

pub fn guarded<T>(f: impl FnOnce() -> T) -> Result<T, String> {
    IN_GUARD.with(|g| g.set(g.get() + 1));
    let r = std::panic::catch_unwind(std::panic::AssertUnwindSafe(f));
    IN_GUARD.with(|g| g.set(g.get() - 1));
    match r {
        Ok(v) => Ok(v),
        Err(e) => {
            let msg = if let Some(s) = e.downcast_ref::<&str>() {
                s.to_string()
            } else if let Some(s) = e.downcast_ref::<String>() {
                s.clone()
            } else {
                "panic".to_string()
            };
            Err(msg)
        }
    }
}

fn main() {
    // keep panic messages of the code under test out of stderr
    std::panic::set_hook(Box::new(|info| {
        if IN_GUARD.with(|g| g.get()) == 0 {
            eprintln!("vdrive: {}", info);
        }
    }));
    let args: Vec<String> = std::env::args().collect();
    if args.len() == 3 && args[1] == "show" {
        // vdrive show <concrete-root-schema.json>: pretty generated code (debugging aid)
        let text = std::fs::read_to_string(&args[2]).unwrap();
        let root: schemars::schema::RootSchema = serde_json::from_str(&text).unwrap();
        let mut st = typify_impl::TypeSpaceSettings::default();
        st.with_struct_builder(std::env::var("BUILDER").is_ok());
        let mut ts = typify_impl::TypeSpace::new(&st);
        println!("{:?}", ts.add_root_schema(root).map(|_| ()));
        println!("{}", inv::pretty(ts.to_stream()).unwrap_or_else(|e| e));
        return;
    }
    if args.len() == 5 && args[1] == "c12child" {
        c12::child(&args[2], args[3].parse().unwrap(), args[4].parse().unwrap());
        return;
    }
    if args.len() == 4 && args[1] == "c15dbg" {
        // first differing item between a CLI output file and the builder output for default settings
        let t = std::fs::read_to_string(&args[2]).unwrap();
        let a = c15::norm_items(&syn::parse_file(&t).unwrap().items);
        let b = c15::norm_items(&syn::parse_file(&std::fs::read_to_string(&args[3]).unwrap()).unwrap().items);
        for (x, y) in a.iter().zip(b.iter()) {
            if x != y {
                let n = x.chars().zip(y.chars()).take_while(|(p, q)| p == q).count();
                println!("DIFF at {}:\n{}\n----\n{}", n, &x[n.saturating_sub(80)..(n + 120).min(x.len())], &y[n.saturating_sub(80)..(n + 120).min(y.len())]);
                break;
            }
        }
        println!("{} {}", a.len(), b.len());
        return;
    }
    if args.len() < 4 {
        eprintln!("usage: vdrive <family> <cases.ndjson> <events.ndjson> [extra...]");
        std::process::exit(2);
    }
    let fam = args[1].as_str();
    match fam {
        "c07" => c07::run(&args[2], &args[3]),
        "c10" => c10::run(&args[2], &args[3]),
        "c10f" => c10::run_formats(&args[2], &args[3]),
        "excl" => excl::run(&args[2], &args[3]),
        "c12" => c12::run(&args[2], &args[3], args.get(4).and_then(|n| n.parse().ok()).unwrap_or(3)),
        "c13" => c13::run(&args[2], &args[3]),
        "c15" => c15::run(&args[2], &args[3], &args[4], &args[5]),
        "c15cmp" => c15::cmp(&args[2], &args[3], &args[4], &args[5]),
        "c16" => c16::run(&args[2], &args[3]),
        "gen" => gen::run(&args[4], &args[2], &args[3], &args[5], args[6].parse().unwrap()),
        _ => {
            eprintln!("unknown family {}", fam);
            std::process::exit(2);
        }
    }
}
