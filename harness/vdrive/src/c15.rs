//! C15: front ends.  `c15` runs the real cargo-typify binary per option
//! vector in a scratch directory, writes the macro / builder-side crates for
//! expansion; `c15cmp` compares the two expansions module by module.
use crate::{doc, guarded, inv, read_cases, Out};
use quote::ToTokens;
use serde_json::{json, Value};
use std::path::Path;
use typify_impl::TypeSpace;

pub const SCHEMA: &str = r##"{
  "definitions": {
    "Ext": {"type":"object","properties":{"inner":{"type":"string"}},
            "x-rust-type":{"crate":"extcrate","version":"1.0.0","path":"extcrate::m::Thing"}},
    "Ext2": {"type":"object","properties":{"inner":{"type":"integer"}},
            "x-rust-type":{"crate":"ext-crate2","version":"^1","path":"ext_crate2::Thing2"}},
    "User": {"type":"object",
             "properties":{"f":{"$ref":"#/definitions/Ext"},"g":{"$ref":"#/definitions/Ext2"},
                           "m":{"type":"object","additionalProperties":{"type":"integer"}},
                           "n":{"type":"number"},"o":{"$ref":"#/definitions/Other"},"c":{"$ref":"#/definitions/Col"}},
             "required":["f"]},
    "Other": {"type":"object","properties":{"s":{"type":"string"}}},
    "Col": {"type":"string","enum":["r","g"]},
    "WrapOther": {"$ref":"#/definitions/Other"},
    "OtherOrCol": {"oneOf":[{"$ref":"#/definitions/Other"},{"$ref":"#/definitions/Col"}]},
    "WrapNum": {"type":"number"},
    "NumOrCol": {"oneOf":[{"type":"number"},{"$ref":"#/definitions/Col"}]}
  }
}"##;

fn strip_docs(attrs: &mut Vec<syn::Attribute>) {
    attrs.retain(|a| !a.path().is_ident("doc"));
}
struct DocStripper;
impl syn::visit_mut::VisitMut for DocStripper {
    fn visit_attributes_mut(&mut self, attrs: &mut Vec<syn::Attribute>) {
        strip_docs(attrs);
    }
}

/// normalised token text of every item of a file (docs dropped, `const _` dropped)
pub fn norm_items(items: &[syn::Item]) -> Vec<String> {
    let mut out = vec![];
    for it in items {
        if let syn::Item::Const(c) = it {
            if c.ident == "_" {
                continue;
            }
        }
        let mut it = it.clone();
        syn::visit_mut::VisitMut::visit_item_mut(&mut DocStripper, &mut it);
        // trailing commas are formatting (rustfmt adds and removes them)
        let t = inv::norm_tokens(&it.to_token_stream())
            .replace(",)", ")").replace(",}", "}").replace(",]", "]").replace(",>", ">");
        out.push(t);
    }
    out
}

fn builder_items(settings: &Value) -> Result<Vec<String>, String> {
    let st = doc::settings_of(settings);
    let root: schemars::schema::RootSchema = serde_json::from_str(SCHEMA).unwrap();
    let r = guarded(|| {
        let mut ts = TypeSpace::new(&st);
        ts.add_root_schema(root).map_err(|e| e.to_string())?;
        Ok::<_, String>(ts.to_stream())
    });
    match r {
        Ok(Ok(ts)) => {
            let f = syn::parse2::<syn::File>(ts).map_err(|e| e.to_string())?;
            Ok(norm_items(&f.items))
        }
        Ok(Err(e)) => Err(e),
        Err(_) => Err("panic".into()),
    }
}

fn builder_text(settings: &Value) -> Option<String> {
    let st = doc::settings_of(settings);
    let root: schemars::schema::RootSchema = serde_json::from_str(SCHEMA).unwrap();
    guarded(|| {
        let mut ts = TypeSpace::new(&st);
        ts.add_root_schema(root).ok()?;
        Some(ts.to_stream().to_string())
    })
    .ok()
    .flatten()
}

fn cli_args(o: &Value, invalid: &str, outmode: &str) -> Vec<String> {
    let mut a = vec!["typify".to_string()];
    a.push(if invalid == "missing-input" { "nofile.json".into() } else { "schema.json".into() });
    if o["builder"].as_bool().unwrap() {
        a.push("--builder".into());
    } else {
        a.push("--no-builder".into());
    }
    if invalid == "builder-and-no-builder" {
        a.push("--builder".into());
    }
    for d in o["derives"].as_array().unwrap() {
        a.push("--additional-derive".into());
        a.push(d.as_str().unwrap().into());
    }
    if o["map"] == "btree" {
        a.push("--map-type".into());
        a.push("::std::collections::BTreeMap".into());
    }
    for c in o["crates"].as_array().unwrap() {
        let rn = c["rename"].as_str().unwrap();
        let spec = if rn.is_empty() {
            format!("{}@{}", c["name"].as_str().unwrap(), c["vers"].as_str().unwrap())
        } else {
            format!("{}={}@{}", rn, c["name"].as_str().unwrap(), c["vers"].as_str().unwrap())
        };
        a.push("--crate".into());
        a.push(spec);
    }
    if invalid == "bad-crate-spec" {
        a.push("--crate".into());
        a.push("nocratespec".into());
    }
    if o["unknown"] != "default" {
        a.push("--unknown-crates".into());
        a.push(o["unknown"].as_str().unwrap().into());
    }
    match outmode {
        "dash" => {
            a.push("-o".into());
            a.push("-".into());
        }
        "file" => {
            a.push("-o".into());
            a.push("out.rs".into());
        }
        _ => {}
    }
    a
}

fn macro_invocation(o: &Value, schema_file: &str) -> String {
    let mut s = format!("typify::import_types!(\n    schema = \"{}\",\n", schema_file);
    if o["builder"].as_bool().unwrap() {
        s.push_str("    struct_builder = true,\n");
    }
    let ds: Vec<&str> = o["derives"].as_array().unwrap().iter().map(|d| d.as_str().unwrap()).collect();
    if !ds.is_empty() {
        s.push_str(&format!("    derives = [{}],\n", ds.join(", ")));
    }
    if o["map"] == "btree" {
        s.push_str("    map_type = \"::std::collections::BTreeMap\",\n");
    }
    let cs = o["crates"].as_array().unwrap();
    if !cs.is_empty() {
        s.push_str("    crates = {\n");
        for c in cs {
            let rn = c["rename"].as_str().unwrap();
            if rn.is_empty() {
                s.push_str(&format!("        \"{}\" = \"{}\",\n", c["name"].as_str().unwrap(), c["vers"].as_str().unwrap()));
            } else {
                s.push_str(&format!("        \"{}\" = \"{}@{}\",\n", rn, c["name"].as_str().unwrap(), c["vers"].as_str().unwrap()));
            }
        }
        s.push_str("    },\n");
    }
    match o["unknown"].as_str().unwrap() {
        "generate" => s.push_str("    unknown_crates = Generate,\n"),
        "allow" => s.push_str("    unknown_crates = Allow,\n"),
        "deny" => s.push_str("    unknown_crates = Deny,\n"),
        _ => {}
    }
    if o["patch"].as_bool().unwrap() {
        s.push_str("    patch = { Col = { rename = \"Colour\", derives = [Eq, PartialEq] } },\n");
    }
    if o["replace"].as_bool().unwrap() {
        s.push_str("    replace = { Other = crate::Repl: ?FromStr },\n");
    }
    if o["convert"].as_bool().unwrap() {
        s.push_str("    convert = { { type = \"number\" } = crate::Num },\n");
    }
    s.push_str(");\n");
    s
}

fn list_files(dir: &Path) -> Vec<String> {
    let mut v: Vec<String> = std::fs::read_dir(dir)
        .map(|rd| rd.filter_map(|e| e.ok()).map(|e| e.file_name().to_string_lossy().to_string()).collect())
        .unwrap_or_default();
    v.sort();
    v
}

pub fn run(cases_path: &str, events: &str, cli_bin: &str, scratch: &str) {
    let cases = read_cases(cases_path);
    let mut out = Out::new(events);
    let scratch = Path::new(scratch);
    let _ = std::fs::remove_dir_all(scratch);
    std::fs::create_dir_all(scratch.join("macro/src")).unwrap();
    std::fs::create_dir_all(scratch.join("bside/src")).unwrap();
    let mut macro_lib = String::from("#![allow(warnings)]\npub struct Repl;\npub struct Num;\n");
    let mut bside_lib = String::from("#![allow(warnings)]\npub struct Repl;\npub struct Num;\n");
    std::fs::write(scratch.join("macro/schema.json"), SCHEMA).unwrap();
    for (i, case) in cases.iter().enumerate() {
        let case_no = i + 1;
        let o = &case["o"];
        let invalid = case["invalid"].as_str().unwrap_or("");
        out.ev(json!({"ev": "case", "case": case_no, "o": o, "invalid": invalid, "cli": case["cli"], "macro": case["macro"]}));
        // ---- CLI
        if case["cli"].as_bool().unwrap_or(false) || !invalid.is_empty() {
            let expected = builder_items(&case["settings"]);
            let modes: Vec<&str> = if invalid.is_empty() && o["derives"].as_array().unwrap().is_empty() && !o["builder"].as_bool().unwrap()
                && o["crates"].as_array().unwrap().is_empty() && o["map"] == "default" && o["unknown"] == "default" {
                vec!["default", "dash", "file"]
            } else {
                vec!["default"]
            };
            for mode in modes {
                let dir = scratch.join(format!("cli{}_{}", case_no, mode));
                std::fs::create_dir_all(&dir).unwrap();
                std::fs::write(dir.join("schema.json"), if invalid == "malformed-schema" { "{ not json" } else { SCHEMA }).unwrap();
                let before = list_files(&dir);
                let args = cli_args(o, invalid, mode);
                let res = std::process::Command::new(cli_bin).args(&args).current_dir(&dir).output();
                let (exit, stdout) = match res {
                    Ok(o) => (o.status.code().unwrap_or(-1), String::from_utf8_lossy(&o.stdout).to_string()),
                    Err(_) => (-2, String::new()),
                };
                let after = list_files(&dir);
                let text = match mode {
                    "dash" => Some(stdout.clone()),
                    "file" => std::fs::read_to_string(dir.join("out.rs")).ok(),
                    _ => std::fs::read_to_string(dir.join("schema.rs")).ok(),
                };
                let items_equal = match (exit, text, &expected) {
                    (0, Some(t), Ok(exp)) => syn::parse_file(&t).map(|f| &norm_items(&f.items) == exp).unwrap_or(false),
                    _ => false,
                };
                out.ev(json!({"ev": "frontend", "which": "cli", "case": case_no, "outmode": mode, "args": args,
                              "exit": exit, "before": before, "after": after, "stdout_len": stdout.len(),
                              "items_equal": items_equal, "builder_ok": expected.is_ok()}));
            }
        }
        // ---- macro and builder-side modules
        if case["macro"].as_bool().unwrap_or(false) {
            macro_lib.push_str(&format!("pub mod v{} {{\n{}}}\n", case_no, macro_invocation(o, "schema.json")));
            if let Some(t) = builder_text(&case["settings"]) {
                bside_lib.push_str(&format!("pub mod v{} {{\n{}\n}}\n", case_no, t));
            }
        }
    }
    std::fs::write(scratch.join("macro/src/lib.rs"), macro_lib).unwrap();
    std::fs::write(scratch.join("bside/src/lib.rs"), bside_lib).unwrap();
    let cargo = |name: &str, typify: bool| {
        format!(
            "[package]\nname = \"{}\"\nversion = \"0.1.0\"\nedition = \"2021\"\n\n[workspace]\n\n[dependencies]\n{}serde = {{ version = \"1.0\", features = [\"derive\"] }}\nserde_json = \"1.0\"\n",
            name,
            if typify { "typify = { path = \"/repo/typify\" }\n" } else { "" }
        )
    };
    // stand-ins for the external crates the x-rust-type paths name (only name resolution is
    // needed for the expansion, nothing is type-checked)
    let mut ext = String::new();
    for (name, body) in [("extcrate", "pub mod m { pub struct Thing; }\n"), ("re_named", "pub mod m { pub struct Thing; }\n"),
                         ("ext-crate2", "pub struct Thing2;\n"), ("other2", "pub struct Thing2;\n")] {
        let d = scratch.join("deps").join(name);
        std::fs::create_dir_all(d.join("src")).unwrap();
        std::fs::write(d.join("Cargo.toml"), format!("[package]\nname = \"{}\"\nversion = \"1.0.0\"\nedition = \"2021\"\n\n[workspace]\n", name)).unwrap();
        std::fs::write(d.join("src/lib.rs"), body).unwrap();
        ext.push_str(&format!("{} = {{ path = \"../deps/{}\" }}\n", name, name));
    }
    std::fs::write(scratch.join("macro/Cargo.toml"), format!("{}{}", cargo("c15macro", true), ext)).unwrap();
    std::fs::write(scratch.join("bside/Cargo.toml"), format!("{}{}", cargo("c15bside", false), ext)).unwrap();
    for d in ["macro", "bside"] {
        std::fs::write(scratch.join(d).join("rust-toolchain.toml"), "[toolchain]\nchannel = \"1.80.1\"\n").unwrap();
    }
}

fn modules(path: &str) -> std::collections::BTreeMap<String, Vec<String>> {
    let text = std::fs::read_to_string(path).unwrap_or_default();
    let mut m = std::collections::BTreeMap::new();
    if let Ok(f) = syn::parse_file(&text) {
        for it in f.items {
            if let syn::Item::Mod(md) = it {
                if let Some((_, items)) = md.content {
                    m.insert(md.ident.to_string(), norm_items(&items));
                }
            }
        }
    }
    m
}

/// compare the two expansions module by module
pub fn cmp(cases_path: &str, events: &str, macro_rs: &str, bside_rs: &str) {
    let cases = read_cases(cases_path);
    let mut out = Out::new(events);
    let a = modules(macro_rs);
    let b = modules(bside_rs);
    for (i, case) in cases.iter().enumerate() {
        if !case["macro"].as_bool().unwrap_or(false) {
            continue;
        }
        let k = format!("v{}", i + 1);
        let (expanded, eq, na, nb) = match (a.get(&k), b.get(&k)) {
            (Some(x), Some(y)) => (true, x == y, x.len(), y.len()),
            (None, Some(y)) => (false, false, 0, y.len()),
            (Some(x), None) => (true, false, x.len(), 0),
            (None, None) => (false, false, 0, 0),
        };
        out.ev(json!({"ev": "frontend", "which": "macro", "case": i + 1, "expanded": expanded,
                      "items_equal": eq, "n_macro": na, "n_builder": nb}));
    }
}
