//! C12: determinism.  For each case the generator is run in several fresh
//! processes (fresh hash seeds) on several encodings of the same document
//! (object key order permuted, whitespace varied); one "gen" event per case.
use crate::{doc, guarded, read_cases, Out};
use serde_json::{json, Value};
use typify_impl::TypeSpace;

/// re-emit JSON text with the members of every object in a permuted order
fn emit_perm(v: &Value, perm: u64, pretty: bool, depth: usize, out: &mut String) {
    match v {
        Value::Object(o) => {
            let mut keys: Vec<&String> = o.keys().collect();
            match perm % 3 {
                1 => keys.reverse(),
                2 => {
                    let n = keys.len();
                    if n > 0 {
                        keys.rotate_left((1 + depth) % n);
                    }
                }
                _ => {}
            }
            out.push('{');
            for (i, k) in keys.iter().enumerate() {
                if i > 0 {
                    out.push(',');
                }
                if pretty {
                    out.push_str("\n  ");
                }
                out.push_str(&serde_json::to_string(k).unwrap());
                out.push(':');
                if pretty {
                    out.push(' ');
                }
                emit_perm(&o[*k], perm, pretty, depth + 1, out);
            }
            out.push('}');
        }
        Value::Array(a) => {
            out.push('[');
            for (i, x) in a.iter().enumerate() {
                if i > 0 {
                    out.push(',');
                }
                emit_perm(x, perm, pretty, depth + 1, out);
            }
            out.push(']');
        }
        other => out.push_str(&other.to_string()),
    }
}

fn generate(case: &Value, perm: u64) -> Result<(String, bool), String> {
    let settings = doc::settings_of(case.get("settings").unwrap_or(&json!({})));
    let mut ts = TypeSpace::new(&settings);
    for call in case["calls"].as_array().unwrap() {
        // the document text in the requested encoding, through the real parser
        let r = match call["call"].as_str().unwrap() {
            "add_root_schema" => {
                let text = doc::doc_text(&call["doc"]);
                let v: Value = serde_json::from_str(&text).map_err(|e| e.to_string())?;
                let mut t2 = String::new();
                emit_perm(&v, perm, perm % 2 == 1, 0, &mut t2);
                let root: schemars::schema::RootSchema = serde_json::from_str(&t2).map_err(|e| e.to_string())?;
                guarded(|| ts.add_root_schema(root).map(|_| ()).map_err(|e| e.to_string()))
            }
            _ => {
                let (res, _, _) = doc::do_call(&mut ts, call);
                Ok(if res == "ok" { Ok(()) } else { Err(res) })
            }
        };
        match r {
            Ok(Ok(())) => {}
            Ok(Err(e)) => return Err(format!("rejected:{}", e)),
            Err(_) => return Err("rejected:panic".into()),
        }
    }
    let a = guarded(|| ts.to_stream().to_string()).map_err(|_| "render-panic".to_string())?;
    let b = guarded(|| ts.to_stream().to_string()).map_err(|_| "render-panic".to_string())?;
    Ok((doc::fnv(&a), a == b))
}

/// child mode: one generation in this (fresh) process
pub fn child(case_path: &str, index: usize, perm: u64) {
    use std::io::BufRead;
    let f = std::fs::File::open(case_path).unwrap();
    let line = std::io::BufReader::new(f).lines().nth(index).unwrap().unwrap();
    let case: Value = serde_json::from_str(&line).unwrap();
    match generate(&case, perm) {
        Ok((h, same)) => println!("{} {}", h, same),
        Err(e) => println!("ERR {}", e.replace(' ', "_")),
    }
}

pub fn run(cases_path: &str, events: &str, nproc: usize) {
    let cases = read_cases(cases_path);
    let n = cases.len();
    let exe = std::env::current_exe().unwrap();
    let workers = 12usize;
    let results: std::sync::Mutex<Vec<Option<Value>>> = std::sync::Mutex::new(vec![None; n]);
    std::thread::scope(|sc| {
        for w in 0..workers {
            let exe = &exe;
            let results = &results;
            sc.spawn(move || {
                let mut i = w;
                while i < n {
                    let mut runs = vec![];
                    for p in 0..nproc {
                        for perm in 0..3u64 {
                            // fresh process for every run: fresh RandomState seeds
                            if p > 0 && perm > 0 {
                                continue;
                            }
                            let o = std::process::Command::new(exe)
                                .args(["c12child", cases_path, &i.to_string(), &perm.to_string()])
                                .output()
                                .expect("spawn child");
                            let line = String::from_utf8_lossy(&o.stdout).trim().to_string();
                            let mut it = line.split(' ');
                            let h = it.next().unwrap_or("").to_string();
                            let second = it.next().unwrap_or("").to_string();
                            let same = second == "true" || h == "ERR";
                            let hash = if h == "ERR" { format!("ERR:{}", second) } else { h };
                            runs.push(json!({"proc": p, "perm": perm, "hash": hash, "rerender_equal": same}));
                        }
                    }
                    results.lock().unwrap()[i] = Some(json!({"ev": "gen", "case": i + 1, "runs": runs}));
                    i += workers;
                }
            });
        }
    });
    let mut out = Out::new(events);
    for r in results.into_inner().unwrap() {
        out.ev(r.unwrap());
    }
}
