//! Generic replay of a case (settings + ingestion history) through the real
//! TypeSpace, with the recording primitives shared by all document-shaped
//! properties: ingest / snapshot / render / intro events.
use crate::{abs, guarded, inv};
use serde_json::{json, Value};
use typify_impl::{
    CrateVers, MapType, Type, TypeDetails, TypeEnumVariant, TypeId, TypeSpace, TypeSpaceImpl,
    TypeSpacePatch, TypeSpaceSettings, UnknownPolicy,
};

pub fn is_empty_rec(v: &Value) -> bool {
    v.is_null() || v.as_array().map(|a| a.is_empty()).unwrap_or(false)
        || v.as_object().map(|o| o.is_empty()).unwrap_or(false)
}

fn impls_of(v: &Value) -> Vec<TypeSpaceImpl> {
    v.as_array()
        .map(|a| {
            a.iter()
                .filter_map(|s| s.as_str().and_then(|s| s.parse::<TypeSpaceImpl>().ok()))
                .collect()
        })
        .unwrap_or_default()
}

pub fn map_path(m: &str) -> &'static str {
    match m {
        "btree" => "::std::collections::BTreeMap",
        "mymap" => "crate::support::MyMap",
        _ => "::std::collections::HashMap",
    }
}

pub fn settings_of(s: &Value) -> TypeSpaceSettings {
    let mut st = TypeSpaceSettings::default();
    if is_empty_rec(s) {
        return st;
    }
    if let Some(b) = s.get("builder").and_then(|b| b.as_bool()) {
        st.with_struct_builder(b);
    }
    if let Some(m) = s.get("map").and_then(|m| m.as_str()) {
        if m != "hash" {
            st.with_map_type(MapType::new(map_path(m)));
        }
    }
    if let Some(ds) = s.get("derives").and_then(|d| d.as_array()) {
        for d in ds {
            st.with_derive(d.as_str().unwrap().to_string());
        }
    }
    if let Some(m) = s.get("typeMod").and_then(|m| m.as_str()) {
        if !m.is_empty() {
            st.with_type_mod(m);
        }
    }
    if let Some(p) = s.get("patch").and_then(|p| p.as_object()) {
        for (name, spec) in p {
            let mut tp = TypeSpacePatch::default();
            if let Some(r) = spec.get("rename").and_then(|r| r.as_str()) {
                if !r.is_empty() {
                    tp.with_rename(r);
                }
            }
            if let Some(ds) = spec.get("derives").and_then(|d| d.as_array()) {
                for d in ds {
                    tp.with_derive(d.as_str().unwrap());
                }
            }
            st.with_patch(name, &tp);
        }
    }
    if let Some(p) = s.get("replace").and_then(|p| p.as_object()) {
        for (name, spec) in p {
            st.with_replacement(
                name,
                spec["ty"].as_str().unwrap(),
                impls_of(&spec["impls"]).into_iter(),
            );
        }
    }
    if let Some(cs) = s.get("convert").and_then(|c| c.as_array()) {
        for c in cs {
            let schema = abs::schema_of(&c["schema"]).expect("conversion schema");
            st.with_conversion(
                schema.into_object(),
                c["ty"].as_str().unwrap(),
                impls_of(&c["impls"]).into_iter(),
            );
        }
    }
    if let Some(cs) = s.get("crates").and_then(|c| c.as_array()) {
        for c in cs {
            let vers = CrateVers::parse(c["vers"].as_str().unwrap()).expect("crate version");
            let rn = c.get("rename").and_then(|r| r.as_str()).filter(|r| !r.is_empty()).map(|r| r.to_string());
            st.with_crate(c["name"].as_str().unwrap(), vers, rn.as_ref());
        }
    }
    if let Some(u) = s.get("unknown").and_then(|u| u.as_str()) {
        st.with_unknown_crates(match u {
            "allow" => UnknownPolicy::Allow,
            "deny" => UnknownPolicy::Deny,
            _ => UnknownPolicy::Generate,
        });
    }
    st
}

/// abstract document {root?: schema, defs: {name: schema}} -> RootSchema text
pub fn doc_text(d: &Value) -> String {
    let mut t = String::new();
    let mut root = String::new();
    match d.get("root") {
        Some(r) if !is_empty_rec(r) => abs::schema_text(r, &mut root),
        _ => root.push_str("{}"),
    }
    // splice definitions into the root object
    t.push_str(&root[..root.len() - 1]);
    if root.len() > 2 {
        t.push(',');
    }
    t.push_str("\"definitions\":{");
    let mut first = true;
    if let Some(defs) = d.get("defs").and_then(|x| x.as_object()) {
        for (k, v) in defs {
            if !first {
                t.push(',');
            }
            first = false;
            t.push_str(&serde_json::to_string(k).unwrap());
            t.push(':');
            abs::schema_text(v, &mut t);
        }
    } else if let Some(defs) = d.get("defsList").and_then(|x| x.as_array()) {
        for pair in defs {
            if !first {
                t.push(',');
            }
            first = false;
            let name = if pair[0].is_array() { abs::tokens_str(&pair[0]) } else { pair[0].as_str().unwrap().to_string() };
            t.push_str(&serde_json::to_string(&name).unwrap());
            t.push(':');
            abs::schema_text(&pair[1], &mut t);
        }
    }
    t.push_str("}}");
    t
}

pub struct Replay {
    pub ts: TypeSpace,
    pub returned: Vec<(usize, TypeId)>, // (call index, id)
    pub all_ok: bool,
}

/// one ingestion call; returns (res, returned id or 0)
pub fn do_call(ts: &mut TypeSpace, call: &Value) -> (String, u64, Option<TypeId>) {
    let kind = call["call"].as_str().unwrap();
    let r = guarded(|| -> Result<Option<TypeId>, String> {
        match kind {
            "add_root_schema" => {
                let text = doc_text(&call["doc"]);
                let root: schemars::schema::RootSchema =
                    serde_json::from_str(&text).map_err(|e| format!("parse:{} {}", e, text))?;
                ts.add_root_schema(root).map_err(|e| e.to_string())
            }
            "add_ref_types" => {
                let mut defs = Vec::new();
                for pair in call["defs"].as_array().unwrap() {
                    let name = if pair[0].is_array() { abs::tokens_str(&pair[0]) } else { pair[0].as_str().unwrap().to_string() };
                    defs.push((name, abs::schema_of(&pair[1]).map_err(|e| format!("parse:{}", e))?));
                }
                ts.add_ref_types(defs).map(|_| None).map_err(|e| e.to_string())
            }
            "add_type" => {
                let schema = abs::schema_of(&call["schema"]).map_err(|e| format!("parse:{}", e))?;
                let hint = call.get("hint").and_then(|h| h.as_str()).filter(|h| !h.is_empty()).map(|h| h.to_string());
                ts.add_type_with_name(&schema, hint).map(Some).map_err(|e| e.to_string())
            }
            _ => Err(format!("unknown call {}", kind)),
        }
    });
    match r {
        Ok(Ok(id)) => ("ok".to_string(), id.as_ref().map(|i| i.verif_raw()).unwrap_or(0), id),
        Ok(Err(e)) if e.starts_with("parse:") => ("parse".to_string(), 0, None),
        Ok(Err(_)) => ("err".to_string(), 0, None),
        Err(_) => ("panic".to_string(), 0, None),
    }
}

/// public-API projection of one type: what a caller can observe through
/// name()/ident()/details()
pub fn public_proj(ts: &TypeSpace, t: &Type) -> Value {
    let name: String = guarded(|| t.name()).unwrap_or_else(|_| "<panic>".into());
    let name: String = name.chars().filter(|c| !c.is_whitespace()).collect::<String>().replace(",>", ">");
    let ident = guarded(|| inv::norm_tokens(&t.ident())).unwrap_or_else(|_| "<panic>".into());
    let mut kind = "";
    let mut edges: Vec<Value> = vec![];
    let mut builtin = String::new();
    let e = |k: &str, label: &str, id: &TypeId, req: bool| json!({"edge": k, "label": label, "to": id.verif_raw(), "required": req});
    match t.details() {
        TypeDetails::Enum(en) => {
            kind = "enum";
            for v in en.variants_info() {
                match v.details {
                    TypeEnumVariant::Simple => edges.push(json!({"edge": "variant_simple", "label": v.name, "to": 0, "required": true})),
                    TypeEnumVariant::Tuple(ids) => {
                        for id in ids.iter() {
                            edges.push(e("variant_tuple", v.name, id, true));
                        }
                    }
                    TypeEnumVariant::Struct(ps) => {
                        for (n, id) in ps.iter() {
                            edges.push(e("variant_prop", &format!("{}.{}", v.name, n), id, true));
                        }
                    }
                }
            }
        }
        TypeDetails::Struct(s) => {
            kind = "struct";
            for p in s.properties_info() {
                edges.push(e("prop", p.name, &p.type_id, p.required));
            }
        }
        TypeDetails::Newtype(n) => {
            kind = "newtype";
            edges.push(e("newtype", "0", &n.inner(), true));
        }
        TypeDetails::Option(id) => {
            kind = "option";
            edges.push(e("option", "", &id, true));
        }
        TypeDetails::Vec(id) => {
            kind = "vec";
            edges.push(e("vec", "", &id, true));
        }
        TypeDetails::Map(k, v) => {
            kind = "map";
            edges.push(e("map_key", "", &k, true));
            edges.push(e("map_value", "", &v, true));
        }
        TypeDetails::Set(id) => {
            kind = "set";
            edges.push(e("set", "", &id, true));
        }
        TypeDetails::Box(id) => {
            kind = "box";
            edges.push(e("box", "", &id, true));
        }
        TypeDetails::Tuple(ids) => {
            kind = "tuple";
            for id in ids {
                edges.push(e("tuple", "", &id, true));
            }
        }
        TypeDetails::Array(id, n) => {
            kind = "array";
            builtin = n.to_string();
            edges.push(e("array", "", &id, true));
        }
        TypeDetails::Builtin(n) => {
            kind = "builtin";
            builtin = n.to_string();
        }
        TypeDetails::Unit => kind = "unit",
        TypeDetails::String => kind = "string",
    }
    let _ = ts;
    // every path the reported identifiers mention: {abs: leading ::, segs: [..]}
    let paths_of = |ts: proc_macro2::TokenStream| -> Vec<Value> {
        match syn::parse2::<syn::Type>(ts) {
            Err(_) => vec![json!({"abs": false, "segs": ["<unparsable>"]})],
            Ok(ty) => inv::ty_paths(&ty)
                .iter()
                .map(|p| {
                    let abs = p.starts_with("::");
                    let segs: Vec<&str> = p.trim_start_matches("::").split("::").collect();
                    json!({"abs": abs, "segs": segs})
                })
                .collect(),
        }
    };
    let ident_paths = guarded(|| paths_of(t.ident())).unwrap_or_default();
    let param_paths = guarded(|| paths_of(t.parameter_ident())).unwrap_or_default();
    json!({"name": name, "ident": ident, "kind": kind, "edges": edges, "builtin": builtin,
           "ident_paths": ident_paths, "param_paths": param_paths})
}

pub fn impl_flags(t: &Type) -> Value {
    let h = |i: TypeSpaceImpl| guarded(|| t.has_impl(i)).unwrap_or(false);
    json!({"FromStr": h(TypeSpaceImpl::FromStr), "Display": h(TypeSpaceImpl::Display), "Default": h(TypeSpaceImpl::Default)})
}

/// render event payload: res ("ok" | "panic" | "unparsable"), items, hash
pub fn render(ts: &TypeSpace) -> (String, Vec<Value>, String, String) {
    match guarded(|| ts.to_stream()) {
        Err(m) => ("panic".to_string(), vec![], String::new(), m),
        Ok(stream) => {
            let text = stream.to_string();
            match inv::inventory(stream) {
                Err(m) => ("unparsable".to_string(), vec![], text, m),
                Ok(items) => ("ok".to_string(), items, text, String::new()),
            }
        }
    }
}

pub fn fnv(s: &str) -> String {
    let mut h: u64 = 0xcbf29ce484222325;
    for b in s.as_bytes() {
        h ^= *b as u64;
        h = h.wrapping_mul(0x100000001b3);
    }
    format!("{:016x}", h)
}

/// names of top-level type definitions (struct/enum) in an inventory
pub fn def_names(items: &[Value]) -> Vec<String> {
    items
        .iter()
        .filter(|it| it["mod"] == "" && (it["kind"] == "struct" || it["kind"] == "enum"))
        .map(|it| it["name"].as_str().unwrap().to_string())
        .collect()
}

/// child TypeIds of a type through the public API
pub fn children(t: &Type) -> Vec<TypeId> {
    match t.details() {
        TypeDetails::Enum(en) => en
            .variants()
            .flat_map(|(_, v)| match v {
                TypeEnumVariant::Simple => vec![],
                TypeEnumVariant::Tuple(ids) => ids,
                TypeEnumVariant::Struct(ps) => ps.into_iter().map(|(_, id)| id).collect(),
            })
            .collect(),
        TypeDetails::Struct(s) => s.properties().map(|(_, id)| id).collect(),
        TypeDetails::Newtype(n) => vec![n.inner()],
        TypeDetails::Option(id) | TypeDetails::Vec(id) | TypeDetails::Set(id) | TypeDetails::Box(id) => vec![id],
        TypeDetails::Map(k, v) => vec![k, v],
        TypeDetails::Tuple(ids) => ids.collect(),
        TypeDetails::Array(id, _) => vec![id],
        _ => vec![],
    }
}

/// projections of every id reachable from the roots (public API only)
pub fn closure(ts: &TypeSpace, roots: &[TypeId]) -> Vec<Value> {
    let mut seen: std::collections::BTreeMap<u64, Value> = Default::default();
    let mut stack: Vec<TypeId> = roots.to_vec();
    while let Some(id) = stack.pop() {
        let raw = id.verif_raw();
        if seen.contains_key(&raw) {
            continue;
        }
        match ts.get_type(&id) {
            Err(_) => {
                seen.insert(raw, json!({"id": raw, "name": "<invalid id>", "ident": "", "kind": "invalid", "sig": ""}));
            }
            Ok(t) => {
                let p = public_proj(ts, &t);
                let sig = format!("{}|{}", p["edges"], p["builtin"]);
                seen.insert(raw, json!({"id": raw, "name": p["name"], "ident": p["ident"], "kind": p["kind"], "sig": fnv(&sig), "edges": p["edges"]}));
                for c in guarded(|| children(&t)).unwrap_or_default() {
                    stack.push(c);
                }
            }
        }
    }
    seen.into_values().collect()
}
