//! Generated-code pipeline, Rust side: replay each case through the real
//! TypeSpace, record the API-level events, and write one module (generated
//! code + probe driver + bound assertions) per case into sharded crates.
use crate::{abs, doc, guarded, inv, read_cases, Out};
use serde_json::{json, Value};
use std::fmt::Write as _;
use std::path::Path;
use typify_impl::{TypeId, TypeSpace, TypeSpaceImpl};

pub struct TypeRef {
    pub ident: String,           // identifier text with the type_mod prefix (consumer view)
    pub name: String,            // Type::name()
    pub id: Option<TypeId>,
    pub builder: Option<String>, // builder path
}

fn resolve(ts: &mut TypeSpace, returned: &[Option<TypeId>], r: &Value) -> Option<TypeRef> {
    let id = if let Some(d) = r.get("def").and_then(|d| d.as_str()) {
        let s: schemars::schema::Schema =
            serde_json::from_value(json!({"$ref": format!("#/definitions/{}", d)})).ok()?;
        guarded(|| ts.add_type(&s)).ok()?.ok()?
    } else if let Some(k) = r.get("ret").and_then(|k| k.as_u64()) {
        returned.get(k as usize - 1)?.clone()?
    } else {
        return None;
    };
    let t = ts.get_type(&id).ok()?;
    Some(TypeRef {
        ident: t.ident().to_string(),
        name: t.name(),
        builder: t.builder().map(|b| b.to_string()),
        id: Some(id),
    })
}

fn raw(s: &str) -> String {
    // raw string literal with enough hashes
    let mut n = 1;
    while s.contains(&format!("\"{}", "#".repeat(n))) {
        n += 1;
    }
    format!("r{h}\"{s}\"{h}", h = "#".repeat(n), s = s)
}

fn has_impl(items: &[Value], tr: &str, for_: &str) -> bool {
    items
        .iter()
        .any(|it| it["kind"] == "impl" && it["mod"] == "" && it["for_"] == for_ && it["trait_"] == tr)
}

/// probe driver source for one case
fn probe_source(
    case_no: usize,
    probes: &[Value],
    refs: &[Option<TypeRef>],
    items: &[Value],
    ts: &TypeSpace,
    type_mod: &str,
    na: &mut Vec<Value>,
) -> String {
    let mut s = String::new();
    s.push_str("#![allow(unused_imports, unused_variables, dead_code, unused_mut, clippy::all)]\n");
    s.push_str("use crate::support;\n");
    if type_mod.is_empty() {
        s.push_str("use super::g::*;\n");
    } else {
        let _ = writeln!(s, "use super::{};", type_mod);
    }
    s.push_str("pub fn run() {\n");
    for (j, p) in probes.iter().enumerate() {
        let jn = j + 1;
        let kind = p["kind"].as_str().unwrap_or("");
        if kind == "bound" || kind == "none" {
            continue;
        }
        let r = match &refs[j] {
            Some(r) => r,
            None => {
                na.push(json!({"ev": "probe_na", "case": case_no, "probe": jn, "why": "type not located"}));
                continue;
            }
        };
        let ty = &r.ident;
        // the bare name of the type (for impl lookup in the inventory)
        let bare = r.name.clone();
        let _ = writeln!(s, "    support::guard({}, {}, || {{", case_no, jn);
        match kind {
            "deser" => {
                let mut text = String::new();
                abs::untag_text(&p["val"], &mut text);
                let _ = writeln!(s, "        support::p_deser::<{}>({}, {}, {});", ty, case_no, jn, raw(&text));
            }
            "str" => {
                let text = abs::tokens_str(&p["s"]);
                let lit = raw(&text);
                let fs = has_impl(items, "::std::str::FromStr", &bare);
                let t1 = has_impl(items, "::std::convert::TryFrom<&str>", &bare);
                let t2 = has_impl(items, "::std::convert::TryFrom<::std::string::String>", &bare)
                    || has_impl(items, "::std::convert::TryFrom<String>", &bare);
                let t3 = has_impl(items, "::std::convert::TryFrom<&::std::string::String>", &bare)
                    || has_impl(items, "::std::convert::TryFrom<&String>", &bare);
                let dp = has_impl(items, "::std::fmt::Display", &bare);
                let opt = |have: bool, code: String| if have { format!("Some(&{})", code) } else { "None".to_string() };
                let _ = writeln!(
                    s,
                    "        support::p_str::<{ty}>({c}, {j}, {lit}, {a}, {b}, {d}, {e}, {f});",
                    ty = ty, c = case_no, j = jn, lit = lit,
                    a = opt(fs, format!("|s: &str| s.parse::<{}>().ok()", ty)),
                    b = opt(t1, format!("|s: &str| <{} as ::std::convert::TryFrom<&str>>::try_from(s).ok()", ty)),
                    d = opt(t2, format!("|s: String| <{} as ::std::convert::TryFrom<String>>::try_from(s).ok()", ty)),
                    e = opt(t3, format!("|s: &String| <{} as ::std::convert::TryFrom<&String>>::try_from(s).ok()", ty)),
                    f = opt(dp, format!("|x: &{}| x.to_string()", ty)),
                );
            }
            "default" => {
                if has_impl(items, "::std::default::Default", &bare) {
                    let _ = writeln!(s, "        support::p_default::<{}>({}, {}, \"impl_default\");", ty, case_no, jn);
                } else {
                    na.push(json!({"ev": "probe_na", "case": case_no, "probe": jn, "why": "no Default impl"}));
                }
            }
            "builder" => {
                match &r.builder {
                    None => na.push(json!({"ev": "probe_na", "case": case_no, "probe": jn, "why": "no builder"})),
                    Some(_) => {
                        // JSON property name -> (field ident, type ident): the wire name comes from the
                        // syn inventory (serde rename), ident and type from the public API
                        let mut props: Vec<(String, String, String)> = vec![];
                        let item = items.iter().find(|it| it["mod"] == "" && it["kind"] == "struct" && it["name"] == bare);
                        if let Some(id) = &r.id {
                            if let Ok(t) = ts.get_type(id) {
                                if let typify_impl::TypeDetails::Struct(st) = t.details() {
                                    for pi in st.properties_info() {
                                        let pt = ts.get_type(&pi.type_id).map(|t| t.ident().to_string()).unwrap_or_default();
                                        let wire = item
                                            .and_then(|it| it["fields"].as_array())
                                            .and_then(|fs| fs.iter().find(|f| f["name"] == pi.name))
                                            .and_then(|f| f["wire"].as_str())
                                            .unwrap_or(pi.name)
                                            .to_string();
                                        props.push((wire, pi.name.to_string(), pt));
                                    }
                                }
                            }
                        }
                        let idents: Vec<String> = props.iter().map(|x| format!("{:?}", x.1)).collect();
                        let idents = format!("&[{}]", idents.join(", "));
                        let mode = p.get("mode").and_then(|m| m.as_str()).unwrap_or("set");
                        if mode == "from_struct" {
                            // struct -> builder -> struct
                            let mut text = String::new();
                            abs::untag_text(&p["val"], &mut text);
                            // only when the object is a value of the struct at all
                            let _ = writeln!(s, "        if let Ok(x) = serde_json::from_str::<{}>({}) {{", ty, raw(&text));
                            let _ = writeln!(s, "        let b: {} = x.into();", r.builder.as_ref().unwrap());
                            let _ = writeln!(s, "        let r: Result<{}, _> = b.try_into();", ty);
                            let _ = writeln!(s, "        support::p_built({}, {}, r, {});", case_no, jn, idents);
                            let _ = writeln!(s, "        }} else {{ support::emit(serde_json::json!({{\"ev\": \"probe_na\", \"case\": {}, \"probe\": {}, \"why\": \"object is not a value of the struct\"}})); }}", case_no, jn);
                        } else {
                            let _ = writeln!(s, "        let b = <{}>::builder();", ty);
                            for step in p["steps"].as_array().unwrap() {
                                let wire = step["field"].as_str().unwrap();
                                let (field, fty) = props.iter().find(|x| x.0 == wire).map(|x| (x.1.clone(), x.2.clone())).unwrap_or_default();
                                if step.get("bad").and_then(|b| b.as_bool()).unwrap_or(false) {
                                    let _ = writeln!(s, "        let b = b.{}({});", field, step["expr"].as_str().unwrap());
                                } else {
                                    let mut text = String::new();
                                    abs::untag_text(&step["val"], &mut text);
                                    let _ = writeln!(
                                        s,
                                        "        let b = b.{}(serde_json::from_str::<{}>({}).unwrap());",
                                        field, fty, raw(&text)
                                    );
                                }
                            }
                            let _ = writeln!(s, "        let r: Result<{}, _> = b.try_into();", ty);
                            let _ = writeln!(s, "        support::p_built({}, {}, r, {});", case_no, jn, idents);
                        }
                    }
                }
            }
            other => {
                na.push(json!({"ev": "probe_na", "case": case_no, "probe": jn, "why": format!("unknown probe kind {}", other)}));
            }
        }
        s.push_str("    });\n");
    }
    s.push_str("}\n");
    s
}

/// one assertion per line, so that a compile error is attributed by line
fn bounds_source(case_no: usize, bounds: &[(usize, String, String)], type_mod: &str) -> String {
    let mut s = String::new();
    s.push_str("#![allow(unused_imports, dead_code, clippy::all)]\n");
    if type_mod.is_empty() {
        s.push_str("use super::g::*;\n");
    } else {
        let _ = writeln!(s, "use super::{};", type_mod);
    }
    let _ = case_no;
    for (k, ty, bound) in bounds {
        let _ = writeln!(s, "fn b{k}() {{ fn a<T: {b}>() {{}} a::<{t}>(); }}", k = k, b = bound.replace("Self_", ty), t = ty);
    }
    s
}

/// the definitions map of the first add_root_schema call (echoed to the trace)
fn calls_defs(case: &Value) -> Option<Value> {
    case["calls"].as_array()?.iter().find_map(|c| c.get("doc").and_then(|d| d.get("defs")).cloned())
}

pub const PROMISED: &str = "::std::fmt::Debug + ::std::clone::Clone + ::serde::Serialize + ::serde::de::DeserializeOwned + for<'x> ::std::convert::From<&'x Self_>";
pub const ORD_HASH: &str = "::std::cmp::PartialEq + ::std::cmp::Eq + ::std::cmp::PartialOrd + ::std::cmp::Ord + ::std::hash::Hash";

pub fn run(family: &str, cases_path: &str, events_path: &str, gen_dir: &str, shards: usize) {
    let cases = read_cases(cases_path);
    let mut out = Out::new(events_path);
    let gen = Path::new(gen_dir);
    let _ = std::fs::remove_dir_all(gen);
    let mut shard_cases: Vec<Vec<usize>> = vec![vec![]; shards];
    for k in 0..shards {
        std::fs::create_dir_all(gen.join(format!("s{}", k)).join("src")).unwrap();
    }
    for (i, case) in cases.iter().enumerate() {
        let case_no = i + 1;
        let shard = i % shards;
        let settings_v = case.get("settings").cloned().unwrap_or(json!({}));
        let type_mod = settings_v.get("typeMod").and_then(|m| m.as_str()).unwrap_or("").to_string();
        let settings = doc::settings_of(&settings_v);
        let mut ts = TypeSpace::new(&settings);
        // the case echo: everything the trace specification needs to recompute the verdicts
        {
            let mut echo = case.clone();
            if let Some(o) = echo.as_object_mut() {
                o.remove("calls");
                o.insert("ev".into(), json!("case"));
                o.insert("case".into(), json!(case_no));
                if let Some(d) = calls_defs(case) {
                    o.insert("defs".into(), d);
                }
                if let Some(ns) = case.get("names").and_then(|n| n.as_array()) {
                    o.insert("names_str".into(), json!(ns.iter().map(abs::tokens_str).collect::<Vec<_>>()));
                }
                if let Some(ps) = o.get_mut("probes").and_then(|p| p.as_array_mut()) {
                    for p in ps.iter_mut() {
                        if let Some(po) = p.as_object_mut() {
                            po.remove("valid");
                            po.remove("declared");
                        }
                    }
                }
            }
            out.ev(echo);
        }
        // C09: what merging the subschema lists reports (hook verif_merge_all)
        if let Some(ms) = case.get("merges").and_then(|m| m.as_array()) {
            let defs_abs = calls_defs(case).unwrap_or(json!({}));
            let mut defs: std::collections::BTreeMap<String, schemars::schema::Schema> = Default::default();
            if let Some(o) = defs_abs.as_object() {
                for (k, v) in o {
                    if let Ok(sc) = abs::schema_of(v) {
                        defs.insert(k.clone(), sc);
                    }
                }
            }
            for m in ms {
                let subs: Vec<schemars::schema::Schema> = m["subs"].as_array().unwrap().iter()
                    .filter_map(|x| abs::schema_of(x).ok()).collect();
                let r = guarded(|| TypeSpace::verif_merge_all(&subs, &defs));
                let never = match &r {
                    Ok(schemars::schema::Schema::Bool(false)) => "never",
                    Ok(_) => "some",
                    Err(_) => "panic",
                };
                out.ev(json!({"ev": "merge", "case": case_no, "perm": m["perm"], "res": never}));
            }
        }
        let mut returned: Vec<Option<TypeId>> = vec![];
        let mut all_ok = true;
        let calls = case["calls"].as_array().cloned().unwrap_or_default();
        for (k, call) in calls.iter().enumerate() {
            let (res, rawid, id) = doc::do_call(&mut ts, call);
            returned.push(id);
            out.ev(json!({"ev": "ingest", "case": case_no, "seq": k + 1, "call": call["call"], "res": res, "id": rawid}));
            if res != "ok" {
                all_ok = false;
                break;
            }
        }
        if !all_ok {
            out.ev(json!({"ev": "endcase", "case": case_no, "compiled": false}));
            continue;
        }
        // locate probe types before rendering (add_type(&{$ref}) allocates nothing)
        let probes = case.get("probes").and_then(|p| p.as_array()).cloned().unwrap_or_default();
        let refs: Vec<Option<TypeRef>> = probes
            .iter()
            .map(|p| p.get("ty").and_then(|r| resolve(&mut ts, &returned, r)))
            .collect();
        let (rres, items, text, msg) = doc::render(&ts);
        let stream_ok = rres == "ok";
        let mut rev = json!({"ev": "render", "case": case_no, "res": rres, "msg": msg.chars().take(200).collect::<String>(),
                             "items": items});
        // the uses_* flags, for C17
        let squeezed: String = text.chars().filter(|c| !c.is_whitespace()).collect();
        rev["mentions"] = json!({"chrono": squeezed.contains("::chrono::"), "uuid": squeezed.contains("::uuid::"),
                                 "serde_json": squeezed.contains("::serde_json::"), "regress": squeezed.contains("regress::")});
        rev["uses"] = json!({"chrono": ts.uses_chrono(), "uuid": ts.uses_uuid(),
                             "serde_json": ts.uses_serde_json(), "regress": ts.uses_regress()});
        out.ev(rev);
        if family == "intro" || family == "all" {
            let mut rows = vec![];
            // iter_types() walks id_to_entry in id order, as the snapshot does: the
            // snapshot supplies the id of each row (the public API does not expose it)
            let snap = ts.verif_snapshot();
            let ids: Vec<u64> = snap["entries"].as_array().unwrap().iter().map(|e| e["id"].as_u64().unwrap()).collect();
            for (ti, t) in ts.iter_types().enumerate() {
                let mut p = doc::public_proj(&ts, &t);
                p["id"] = json!(ids.get(ti).copied().unwrap_or(0));
                p["impls"] = doc::impl_flags(&t);
                p["builder"] = json!(guarded(|| t.builder().map(|b| inv::norm_tokens(&b))).ok().flatten().unwrap_or_default());
                rows.push(p);
            }
            out.ev(json!({"ev": "intro", "case": case_no, "types": rows}));
        }
        if !stream_ok {
            out.ev(json!({"ev": "endcase", "case": case_no, "compiled": false}));
            continue;
        }
        // ---- write the module
        let pretty = guarded(|| inv::pretty(ts.to_stream())).ok().and_then(|r| r.ok()).unwrap_or_default();
        let mdir = gen.join(format!("s{}", shard)).join("src").join(format!("m{}", case_no));
        std::fs::create_dir_all(&mdir).unwrap();
        let gname = if type_mod.is_empty() { "g".to_string() } else { type_mod.clone() };
        std::fs::write(
            mdir.join(format!("{}.rs", gname)),
            format!("#![allow(warnings, clippy::all)]\n{}", pretty),
        )
        .unwrap();
        let mut na = vec![];
        let psrc = probe_source(case_no, &probes, &refs, &items, &ts, &type_mod, &mut na);
        std::fs::write(mdir.join("probes.rs"), psrc).unwrap();
        // bound assertions: requested per probe of kind "bound", or for every named type
        let mut bounds: Vec<(usize, String, String)> = vec![];
        let mut bound_rows = vec![];
        let want_all = case.get("bounds_all").and_then(|b| b.as_bool()).unwrap_or(false);
        if want_all {
            let mut k = 0;
            for t in ts.iter_types() {
                let proj = doc::public_proj(&ts, &t);
                let kind = proj["kind"].as_str().unwrap().to_string();
                if kind != "struct" && kind != "enum" && kind != "newtype" {
                    continue;
                }
                let ident = t.ident().to_string();
                let mut push = |what: &str, b: String| {
                    k += 1;
                    bounds.push((k, ident.clone(), b));
                    bound_rows.push(json!({"k": k, "ty": proj["name"], "what": what}));
                };
                push("promised", PROMISED.to_string());
                for (imp, name, b) in [
                    (TypeSpaceImpl::FromStr, "FromStr", "::std::str::FromStr"),
                    (TypeSpaceImpl::Display, "Display", "::std::fmt::Display"),
                    (TypeSpaceImpl::Default, "Default", "::std::default::Default"),
                ] {
                    if guarded(|| t.has_impl(imp)).unwrap_or(false) {
                        push(&format!("has_impl:{}", name), b.to_string());
                    }
                }
                push("ordhash", ORD_HASH.to_string());
                push("copy", "::std::marker::Copy".to_string());
            }
        }
        std::fs::write(mdir.join("bounds.rs"), bounds_source(case_no, &bounds, &type_mod)).unwrap();
        std::fs::write(
            mdir.join("mod.rs"),
            format!("pub mod {};\npub mod probes;\npub mod bounds;\n", gname),
        )
        .unwrap();
        for e in na {
            out.ev(e);
        }
        if !bound_rows.is_empty() {
            out.ev(json!({"ev": "bounds_decl", "case": case_no, "rows": bound_rows}));
        }
        shard_cases[shard].push(case_no);
        out.ev(json!({"ev": "endcase", "case": case_no, "compiled": true}));
    }
    // shard manifests
    let home = std::env::var("VERIF_HOME").unwrap_or_else(|_| "/verif".to_string());
    let tmpl = std::fs::read_to_string(format!("{}/harness/gen-template/Cargo.toml.tmpl", home)).unwrap().replace("@HOME@", &home);
    let support = std::fs::read_to_string(format!("{}/harness/gen-template/support.rs", home)).unwrap();
    let mut members = vec![];
    for k in 0..shards {
        let sdir = gen.join(format!("s{}", k));
        std::fs::write(sdir.join("Cargo.toml"), tmpl.replace("@NAME@", &format!("s{}", k))).unwrap();
        std::fs::write(sdir.join("src").join("support.rs"), &support).unwrap();
        std::fs::write(
            sdir.join("cases.json"),
            serde_json::to_string(&shard_cases[k]).unwrap(),
        )
        .unwrap();
        members.push(format!("\"s{}\"", k));
    }
    std::fs::write(
        gen.join("Cargo.toml"),
        format!("[workspace]\nresolver = \"2\"\nmembers = [{}]\n\n[profile.dev]\nopt-level = 0\ndebug = 0\nincremental = false\n", members.join(", ")),
    )
    .unwrap();
    std::fs::write(gen.join("rust-toolchain.toml"), "[toolchain]\nchannel = \"1.80.1\"\n").unwrap();
    std::fs::create_dir_all(gen.join(".cargo")).unwrap();
    std::fs::write(gen.join(".cargo").join("config.toml"), "[net]\noffline = true\n").unwrap();
}
