//! Abstract (TLC-side) data <-> concrete JSON.
//!
//! * lattice points `{"a":anchor,"o":offset}` <-> exact integers (i128)
//! * tagged JSON values  {"t":"null"|"bool"|"int"|"big"|"num"|"str"|"arr"|"obj", ...}
//! * abstract schemas (records with optional fields) -> JSON Schema text

use serde_json::{json, Map, Value};

pub const ANCHORS: &[(&str, i128)] = &[
    ("i64min", i64::MIN as i128),
    ("i32min", i32::MIN as i128),
    ("i16min", i16::MIN as i128),
    ("i8min", i8::MIN as i128),
    ("zero", 0),
    ("i8max", i8::MAX as i128),
    ("u8max", u8::MAX as i128),
    ("i16max", i16::MAX as i128),
    ("u16max", u16::MAX as i128),
    ("i32max", i32::MAX as i128),
    ("u32max", u32::MAX as i128),
    ("i64max", i64::MAX as i128),
    ("u64max", u64::MAX as i128),
];

pub fn is_point(v: &Value) -> bool {
    v.as_object()
        .map(|o| o.len() == 2 && o.contains_key("a") && o.contains_key("o"))
        .unwrap_or(false)
}

pub fn point_value(v: &Value) -> i128 {
    let a = v["a"].as_str().expect("anchor");
    let o = v["o"].as_i64().expect("offset") as i128;
    let base = ANCHORS
        .iter()
        .find(|(n, _)| *n == a)
        .unwrap_or_else(|| panic!("unknown anchor {}", a))
        .1;
    base + o
}

/// nearest lattice point representation of an exact integer, if it has one
pub fn value_point(n: i128) -> Option<Value> {
    let mut best: Option<(&str, i128)> = None;
    for (name, base) in ANCHORS {
        let d = n - base;
        if d.abs() <= 3 && best.map(|(_, bd)| d.abs() < bd.abs()).unwrap_or(true) {
            best = Some((name, d));
        }
    }
    best.map(|(a, o)| json!({"a": a, "o": o as i64}))
}

// ---------------------------------------------------------------- characters

/// token for one character: ASCII printable (except '<') is itself, anything
/// else is `<hex>`.
pub fn char_token(c: char) -> String {
    if c.is_ascii() && !c.is_ascii_control() && c != '<' {
        c.to_string()
    } else {
        format!("<{:x}>", c as u32)
    }
}
pub fn token_char(t: &str) -> char {
    if t.starts_with('<') && t.ends_with('>') && t.len() > 2 {
        char::from_u32(u32::from_str_radix(&t[1..t.len() - 1], 16).expect("hex token"))
            .expect("scalar")
    } else {
        let mut it = t.chars();
        let c = it.next().expect("empty char token");
        assert!(it.next().is_none(), "multi-char token {:?}", t);
        c
    }
}
pub fn str_tokens(s: &str) -> Value {
    Value::Array(s.chars().map(|c| Value::String(char_token(c))).collect())
}
pub fn tokens_str(v: &Value) -> String {
    v.as_array()
        .expect("token list")
        .iter()
        .map(|t| token_char(t.as_str().expect("token")))
        .collect()
}

// ------------------------------------------------------------ tagged values

/// concrete JSON -> tagged form (no JSON null, no floats: numbers that are not
/// 32-bit integers are written as lattice points when possible, as halves when
/// dyadic, otherwise as an opaque text token)
pub fn tag(v: &Value) -> Value {
    match v {
        Value::Null => json!({"t": "null"}),
        Value::Bool(b) => json!({"t": "bool", "v": b}),
        Value::Number(n) => {
            if let Some(i) = n.as_i64() {
                if i.unsigned_abs() < 1_000_000_000 {
                    return json!({"t": "int", "v": i});
                }
            }
            let exact: Option<i128> = n
                .as_i64()
                .map(|x| x as i128)
                .or_else(|| n.as_u64().map(|x| x as i128));
            if let Some(x) = exact {
                if let Some(p) = value_point(x) {
                    return json!({"t": "big", "p": p});
                }
                return json!({"t": "other", "text": n.to_string()});
            }
            let f = n.as_f64().unwrap();
            let h = f * 2.0;
            if h.fract() == 0.0 && h.abs() < 1.0e9 {
                if (h as i64) % 2 == 0 {
                    json!({"t": "int", "v": (h as i64) / 2})
                } else {
                    json!({"t": "num", "h": h as i64})
                }
            } else {
                json!({"t": "other", "text": n.to_string()})
            }
        }
        Value::String(s) => json!({"t": "str", "c": str_tokens(s)}),
        Value::Array(a) => json!({"t": "arr", "v": a.iter().map(tag).collect::<Vec<_>>()}),
        Value::Object(o) => {
            // serde_json's Map is a BTreeMap here: keys are sorted
            let mut ks: Vec<&String> = o.keys().collect();
            ks.sort();
            json!({
                "t": "obj",
                "k": ks.iter().map(|k| Value::String((*k).clone())).collect::<Vec<_>>(),
                "v": ks.iter().map(|k| tag(&o[*k])).collect::<Vec<_>>(),
            })
        }
    }
}

/// tagged form -> JSON text (text, so that integers beyond u64 survive)
pub fn untag_text(v: &Value, out: &mut String) {
    let t = v["t"].as_str().unwrap_or_else(|| panic!("untagged value {}", v));
    match t {
        "null" => out.push_str("null"),
        "bool" => out.push_str(if v["v"].as_bool().unwrap() { "true" } else { "false" }),
        "int" => out.push_str(&v["v"].as_i64().unwrap().to_string()),
        "big" => out.push_str(&point_value(&v["p"]).to_string()),
        "num" => {
            let h = v["h"].as_i64().unwrap();
            out.push_str(&format!("{}", (h as f64) / 2.0));
        }
        "str" => out.push_str(&serde_json::to_string(&tokens_str(&v["c"])).unwrap()),
        "arr" => {
            out.push('[');
            for (i, x) in v["v"].as_array().unwrap().iter().enumerate() {
                if i > 0 {
                    out.push(',');
                }
                untag_text(x, out);
            }
            out.push(']');
        }
        "obj" => {
            out.push('{');
            let ks = v["k"].as_array().unwrap();
            let vs = v["v"].as_array().unwrap();
            for (i, (k, x)) in ks.iter().zip(vs.iter()).enumerate() {
                if i > 0 {
                    out.push(',');
                }
                let key = if k.is_array() { tokens_str(k) } else { k.as_str().unwrap().to_string() };
                out.push_str(&serde_json::to_string(&key).unwrap());
                out.push(':');
                untag_text(x, out);
            }
            out.push('}');
        }
        "other" => out.push_str(v["text"].as_str().unwrap()),
        _ => panic!("bad tag {}", t),
    }
}

pub fn untag(v: &Value) -> Value {
    let mut s = String::new();
    untag_text(v, &mut s);
    serde_json::from_str(&s).unwrap_or_else(|e| panic!("untag {}: {}", s, e))
}

// --------------------------------------------------------- abstract schemas

const SCHEMA_KEYS: &[&str] = &[
    "additionalProperties",
    "propertyNames",
    "items",
    "additionalItems",
    "not",
    "contains",
    "if",
    "then",
    "else",
];
const SCHEMA_LIST_KEYS: &[&str] = &["allOf", "anyOf", "oneOf"];
const SCHEMA_MAP_KEYS: &[&str] = &["properties", "patternProperties", "definitions"];
const VALUE_KEYS: &[&str] = &["default", "const"];
const NUM_KEYS: &[&str] = &[
    "minimum",
    "maximum",
    "exclusiveMinimum",
    "exclusiveMaximum",
    "multipleOf",
];

fn push_key(out: &mut String, first: &mut bool, k: &str) {
    if !*first {
        out.push(',');
    }
    *first = false;
    out.push_str(&serde_json::to_string(k).unwrap());
    out.push(':');
}

fn num_text(v: &Value, out: &mut String) {
    if is_point(v) {
        out.push_str(&point_value(v).to_string());
    } else if v.get("t").is_some() {
        untag_text(v, out);
    } else {
        out.push_str(&v.to_string());
    }
}

/// abstract schema -> JSON Schema text
pub fn schema_text(s: &Value, out: &mut String) {
    // ToJson renders an empty record as []: the empty schema
    if s.as_array().map(|a| a.is_empty()).unwrap_or(false) {
        out.push_str("{}");
        return;
    }
    let o = s.as_object().unwrap_or_else(|| panic!("schema not a record: {}", s));
    if let Some(b) = o.get("bool") {
        out.push_str(if b.as_bool().unwrap() { "true" } else { "false" });
        return;
    }
    out.push('{');
    let mut first = true;
    for (k, v) in o {
        let k = k.as_str();
        if k == "ref" {
            push_key(out, &mut first, "$ref");
            let rs = if v.is_array() { tokens_str(v) } else { v.as_str().unwrap().to_string() };
            let r = rs.as_str();
            let t = if r == "#" {
                "#".to_string()
            } else {
                format!("#/definitions/{}", r)
            };
            out.push_str(&serde_json::to_string(&t).unwrap());
        } else if k == "xrust" {
            push_key(out, &mut first, "x-rust-type");
            out.push('{');
            let mut f2 = true;
            for (xk, xv) in v.as_object().unwrap() {
                push_key(out, &mut f2, xk);
                if xk == "parameters" {
                    out.push('[');
                    for (i, p) in xv.as_array().unwrap().iter().enumerate() {
                        if i > 0 {
                            out.push(',');
                        }
                        schema_text(p, out);
                    }
                    out.push(']');
                } else {
                    out.push_str(&xv.to_string());
                }
            }
            out.push('}');
        } else if SCHEMA_KEYS.contains(&k) {
            push_key(out, &mut first, k);
            if k == "items" && v.is_array() && !v.as_array().unwrap().is_empty() {
                out.push('[');
                for (i, p) in v.as_array().unwrap().iter().enumerate() {
                    if i > 0 {
                        out.push(',');
                    }
                    schema_text(p, out);
                }
                out.push(']');
            } else {
                schema_text(v, out);
            }
        } else if k == "itemsList" {
            // a tuple: "items": [ ... ] (possibly empty)
            push_key(out, &mut first, "items");
            out.push('[');
            for (i, p) in v.as_array().unwrap().iter().enumerate() {
                if i > 0 {
                    out.push(',');
                }
                schema_text(p, out);
            }
            out.push(']');
        } else if SCHEMA_LIST_KEYS.contains(&k) {
            push_key(out, &mut first, k);
            out.push('[');
            for (i, p) in v.as_array().unwrap().iter().enumerate() {
                if i > 0 {
                    out.push(',');
                }
                schema_text(p, out);
            }
            out.push(']');
        } else if SCHEMA_MAP_KEYS.contains(&k) {
            push_key(out, &mut first, k);
            out.push('{');
            if let Some(m) = v.as_object() {
                let mut f2 = true;
                for (pk, pv) in m {
                    push_key(out, &mut f2, pk);
                    schema_text(pv, out);
                }
            }
            out.push('}');
        } else if k == "propsList" {
            // properties as a list of [name, schema] pairs (names that are
            // not usable as TLA+ function keys travel this way)
            push_key(out, &mut first, "properties");
            out.push('{');
            let mut f2 = true;
            for pair in v.as_array().unwrap() {
                let name = if pair[0].is_array() {
                    tokens_str(&pair[0])
                } else {
                    pair[0].as_str().unwrap().to_string()
                };
                push_key(out, &mut f2, &name);
                schema_text(&pair[1], out);
            }
            out.push('}');
        } else if VALUE_KEYS.contains(&k) {
            push_key(out, &mut first, k);
            untag_text(v, out);
        } else if k == "enum" {
            push_key(out, &mut first, k);
            out.push('[');
            for (i, p) in v.as_array().unwrap().iter().enumerate() {
                if i > 0 {
                    out.push(',');
                }
                untag_text(p, out);
            }
            out.push(']');
        } else if NUM_KEYS.contains(&k) {
            push_key(out, &mut first, k);
            num_text(v, out);
        } else if k == "required" {
            push_key(out, &mut first, k);
            let names: Vec<String> = v
                .as_array()
                .unwrap()
                .iter()
                .map(|n| {
                    if n.is_array() {
                        tokens_str(n)
                    } else {
                        n.as_str().unwrap().to_string()
                    }
                })
                .collect();
            out.push_str(&serde_json::to_string(&names).unwrap());
        } else if k == "types" {
            push_key(out, &mut first, "type");
            out.push_str(&v.to_string());
        } else if k == "titleChars" {
            push_key(out, &mut first, "title");
            out.push_str(&serde_json::to_string(&tokens_str(v)).unwrap());
        } else {
            // type, format, title, description, minLength, pattern, ... copied
            push_key(out, &mut first, k);
            out.push_str(&v.to_string());
        }
    }
    out.push('}');
}

pub fn schema_json(s: &Value) -> Value {
    let mut t = String::new();
    schema_text(s, &mut t);
    serde_json::from_str(&t).unwrap_or_else(|e| panic!("schema text {}: {}", t, e))
}

pub fn schema_of(s: &Value) -> Result<schemars::schema::Schema, String> {
    let mut t = String::new();
    schema_text(s, &mut t);
    serde_json::from_str(&t).map_err(|e| format!("{}: {}", t, e))
}

pub fn root_schema_of(s: &Value) -> Result<schemars::schema::RootSchema, String> {
    let mut t = String::new();
    schema_text(s, &mut t);
    serde_json::from_str(&t).map_err(|e| format!("{}: {}", t, e))
}

#[allow(dead_code)]
pub fn obj(pairs: Vec<(&str, Value)>) -> Value {
    let mut m = Map::new();
    for (k, v) in pairs {
        m.insert(k.to_string(), v);
    }
    Value::Object(m)
}
