//! Exclusive: (subschemas, definitions) -> the real all_mutually_exclusive
//! (hook verif_all_mutually_exclusive) and the route convert_any_of takes
//! for `T = { anyOf: subschemas }` as seen in the rendered output.
use crate::{abs, doc, guarded, inv, read_cases, Out};
use serde_json::{json, Value};
use std::collections::BTreeMap;
use typify_impl::TypeSpace;

pub fn run(cases: &str, events: &str) {
    let cases = read_cases(cases);
    let mut out = Out::new(events);
    for (i, c) in cases.iter().enumerate() {
        let subs: Result<Vec<_>, _> = c["subs"].as_array().unwrap().iter().map(abs::schema_of).collect();
        let mut defs = BTreeMap::new();
        let mut bad = None;
        if let Some(o) = c["defs"].as_object() {
            for (k, v) in o {
                match abs::schema_of(v) {
                    Ok(s) => {
                        defs.insert(k.clone(), s);
                    }
                    Err(e) => bad = Some(e),
                }
            }
        }
        let res = match (subs, bad) {
            (Err(e), _) | (_, Some(e)) => format!("parse:{}", e),
            (Ok(subs), None) => match guarded(|| TypeSpace::verif_all_mutually_exclusive(&subs, &defs)) {
                Ok(true) => "yes".to_string(),
                Ok(false) => "no".to_string(),
                Err(_) => "panic".to_string(),
            },
        };
        // the route taken by convert_any_of, read off the rendered output
        let mut doc = serde_json::Map::new();
        let mut d = c["defs"].as_object().cloned().unwrap_or_default();
        d.insert("T".to_string(), json!({"anyOf": c["subs"]}));
        doc.insert("defs".to_string(), Value::Object(d));
        let parsed: Result<schemars::schema::RootSchema, _> = serde_json::from_str(&doc::doc_text(&Value::Object(doc)));
        let route = match parsed {
            Err(e) => format!("parse:{}", e),
            Ok(root) => match guarded(|| {
                let mut ts = TypeSpace::default();
                match ts.add_root_schema(root) {
                    Err(_) => "rejected".to_string(),
                    Ok(_) => match inv::inventory(ts.to_stream()) {
                        Err(_) => "unparsable".to_string(),
                        Ok(items) => {
                            let t = items.iter().find(|it| it["mod"] == "" && it["name"] == "T" && it["kind"] != "impl");
                            match t {
                                None => "absent".to_string(),
                                Some(t) => {
                                    let fields = t["fields"].as_array().cloned().unwrap_or_default();
                                    if t["kind"] == "struct"
                                        && !fields.is_empty()
                                        && t["shape"] == "named"
                                        && fields.iter().all(|f| f["flatten"] == true)
                                    {
                                        "flattened".to_string()
                                    } else {
                                        format!("{}", t["kind"].as_str().unwrap_or("?"))
                                    }
                                }
                            }
                        }
                    },
                }
            }) {
                Ok(r) => r,
                Err(_) => "panic".to_string(),
            },
        };
        out.ev(json!({"ev": "excl", "case": i + 1, "subs": c["subs"], "defs": c["defs"], "res": res, "route": route}));
    }
}
