//! C07: reference graphs -> containment graph of the generated types, seen
//! through the internal snapshot and through the public API.
use crate::{doc, read_cases, Out};
use serde_json::{json, Value};
use typify_impl::{TypeId, TypeSpace};

fn slim(entries: &[Value]) -> Vec<Value> {
    entries
        .iter()
        .map(|e| {
            json!({
                "id": e["id"], "kind": e["kind"], "name": e["name"],
                "edges": e["edges"].as_array().unwrap().iter()
                    .filter(|x| x["to"].as_u64().unwrap_or(0) != 0)
                    .map(|x| json!({"to": x["to"], "edge": x["edge"]})).collect::<Vec<_>>(),
            })
        })
        .collect()
}

/// The recorded steps of one break_cycles run (hook cycle_event), preceded by a `bc_run` event
/// that gives the run's roots and the containment graph as the run itself saw it (children of a
/// node = what its bc_visit step partitioned into snip and descend), and followed by `bc_end`.
fn emit_cycle_run(bc: &mut Out, case: usize, call: usize, log: &[Value]) {
    if log.is_empty() {
        return;
    }
    let roots: Vec<Value> = log.iter().filter(|e| e["ev"] == "bc_root").map(|e| e["id"].clone()).collect();
    let mut ids: Vec<u64> = vec![];
    let mut graph = serde_json::Map::new();
    for e in log {
        let mut mention = |v: &Value| {
            if let Some(n) = v.as_u64() {
                if !ids.contains(&n) {
                    ids.push(n);
                }
            }
        };
        mention(&e["id"]);
        for c in e["snip"].as_array().unwrap().iter().chain(e["descend"].as_array().unwrap().iter()) {
            mention(c);
        }
        if e["ev"] == "bc_visit" {
            let mut ch = e["snip"].as_array().unwrap().clone();
            ch.extend(e["descend"].as_array().unwrap().iter().cloned());
            graph.insert(e["id"].to_string(), Value::Array(ch));
        }
    }
    ids.sort();
    let nodes: Vec<Value> = ids
        .iter()
        .map(|n| json!({"id": n, "children": graph.get(&n.to_string()).cloned().unwrap_or(json!([]))}))
        .collect();
    bc.ev(json!({"ev": "bc_run", "case": case, "call": call, "roots": roots, "nodes": nodes}));
    for e in log {
        let mut e = e.clone();
        e["case"] = json!(case);
        bc.ev(e);
    }
    bc.ev(json!({"ev": "bc_end", "case": case, "call": call}));
}

/// Names of generated types a Rust type holds by value: descent stops at Box, Vec and the map /
/// set types; Option, tuples and arrays are looked through.
fn by_value_names(t: &syn::Type, out: &mut Vec<String>) {
    match t {
        syn::Type::Path(p) => {
            let segs: Vec<String> = p.path.segments.iter().map(|s| s.ident.to_string()).collect();
            let last = segs.last().cloned().unwrap_or_default();
            let heap = ["Box", "Vec", "HashMap", "BTreeMap", "HashSet", "BTreeSet", "Map", "MyMap", "IndexMap"];
            if heap.contains(&last.as_str()) {
                return;
            }
            let args = match &p.path.segments.last().unwrap().arguments {
                syn::PathArguments::AngleBracketed(a) => a.args.iter().collect::<Vec<_>>(),
                _ => vec![],
            };
            if last == "Option" {
                for a in args {
                    if let syn::GenericArgument::Type(t) = a {
                        by_value_names(t, out);
                    }
                }
            } else if p.path.leading_colon.is_none() && segs.len() == 1 {
                out.push(last);
            }
        }
        syn::Type::Tuple(t) => t.elems.iter().for_each(|e| by_value_names(e, out)),
        syn::Type::Array(a) => by_value_names(&a.elem, out),
        syn::Type::Paren(p) => by_value_names(&p.elem, out),
        _ => {}
    }
}

/// The by-value containment graph of the rendered output: [{name, holds: [names]}] for every
/// top-level struct and enum (third observation of C07, at the level of the emitted code).
fn rendered_graph(ts: &TypeSpace) -> Vec<Value> {
    let file = match syn::parse2::<syn::File>(ts.to_stream()) {
        Ok(f) => f,
        Err(_) => return vec![json!({"name": "<unparsable>", "holds": []})],
    };
    let mut out = vec![];
    for it in &file.items {
        let (name, fields): (String, Vec<&syn::Field>) = match it {
            syn::Item::Struct(s) => (s.ident.to_string(), s.fields.iter().collect()),
            syn::Item::Enum(e) => (e.ident.to_string(), e.variants.iter().flat_map(|v| v.fields.iter()).collect()),
            _ => continue,
        };
        let mut holds = vec![];
        for f in fields {
            by_value_names(&f.ty, &mut holds);
        }
        holds.sort();
        holds.dedup();
        out.push(json!({"name": name, "holds": holds}));
    }
    out
}

pub fn run(cases: &str, events: &str) {
    let cases = read_cases(cases);
    let mut out = Out::new(events);
    let mut bc = Out::new(&format!("{}.bc", events));
    for (i, case) in cases.iter().enumerate() {
        let mut ts = TypeSpace::default();
        let mut res = "ok".to_string();
        for (k, call) in case["calls"].as_array().unwrap().iter().enumerate() {
            typify_impl::verif_cycle_log_start();
            let (r, _, _) = doc::do_call(&mut ts, call);
            let log = typify_impl::verif_cycle_log_take();
            emit_cycle_run(&mut bc, i + 1, k + 1, &log);
            if r != "ok" {
                res = r;
                break;
            }
        }
        let (snap, publ) = if res == "ok" {
            let s = ts.verif_snapshot();
            let snap = slim(s["entries"].as_array().unwrap());
            // public walk: roots are the definitions, located through add_type(&{$ref})
            let mut roots: Vec<TypeId> = vec![];
            let n = case["n"].as_u64().unwrap();
            for k in 1..=n {
                let r: schemars::schema::Schema =
                    serde_json::from_value(json!({"$ref": format!("#/definitions/N{}", k)})).unwrap();
                if let Ok(Ok(id)) = crate::guarded(|| ts.add_type(&r)) {
                    roots.push(id);
                }
            }
            let publ = slim(&doc::closure(&ts, &roots));
            (snap, publ)
        } else {
            (vec![], vec![])
        };
        let rendered = if res == "ok" {
            crate::guarded(|| rendered_graph(&ts)).unwrap_or_else(|_| vec![json!({"name": "<panic>", "holds": []})])
        } else {
            vec![]
        };
        out.ev(json!({"ev": "graph", "case": i + 1, "n": case["n"], "kinds": case["kinds"],
                      "edges": case["edges"], "res": res, "snap": snap, "pub": publ, "rendered": rendered}));
    }
}
