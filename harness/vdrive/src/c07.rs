//! C07: reference graphs -> containment graph of the generated types, seen
//! through the internal snapshot and through the public API.
use crate::{doc, read_cases, Out};
use serde_json::{json, Value};
use typify_impl::{TypeId, TypeSpace};

fn slim(entries: &[Value]) -> Vec<Value> {
    entries
        .iter()
        .map(|e| {
            json!({
                "id": e["id"], "kind": e["kind"], "name": e["name"],
                "edges": e["edges"].as_array().unwrap().iter()
                    .filter(|x| x["to"].as_u64().unwrap_or(0) != 0)
                    .map(|x| json!({"to": x["to"], "edge": x["edge"]})).collect::<Vec<_>>(),
            })
        })
        .collect()
}

pub fn run(cases: &str, events: &str) {
    let cases = read_cases(cases);
    let mut out = Out::new(events);
    for (i, case) in cases.iter().enumerate() {
        let mut ts = TypeSpace::default();
        let mut res = "ok".to_string();
        for call in case["calls"].as_array().unwrap() {
            let (r, _, _) = doc::do_call(&mut ts, call);
            if r != "ok" {
                res = r;
                break;
            }
        }
        let (snap, publ) = if res == "ok" {
            let s = ts.verif_snapshot();
            let snap = slim(s["entries"].as_array().unwrap());
            // public walk: roots are the definitions, located through add_type(&{$ref})
            let mut roots: Vec<TypeId> = vec![];
            let n = case["n"].as_u64().unwrap();
            for k in 1..=n {
                let r: schemars::schema::Schema =
                    serde_json::from_value(json!({"$ref": format!("#/definitions/N{}", k)})).unwrap();
                if let Ok(Ok(id)) = crate::guarded(|| ts.add_type(&r)) {
                    roots.push(id);
                }
            }
            let publ = slim(&doc::closure(&ts, &roots));
            (snap, publ)
        } else {
            (vec![], vec![])
        };
        out.ev(json!({"ev": "graph", "case": i + 1, "n": case["n"], "kinds": case["kinds"],
                      "edges": case["edges"], "res": res, "snap": snap, "pub": publ}));
    }
}
