//! C10: integer schema -> add_type -> TypeDetails::Builtin name.
use crate::{abs, guarded, read_cases, Out};
use serde_json::{json, Value};
use typify_impl::{TypeDetails, TypeSpace};

fn int_schema_text(s: &Value) -> String {
    let empty = serde_json::Map::new();
    let o = s.as_object().unwrap_or(&empty);
    // "split": allOf[{type, format}, {type, bounds}]
    if o.contains_key("split") {
        let mut a = String::from("{\"type\":\"integer\"");
        if let Some(f) = o.get("fmt") {
            a.push_str(&format!(",\"format\":{}", f));
        }
        a.push('}');
        let mut b = String::from("{\"type\":\"integer\"");
        for (k, jk) in [("min", "minimum"), ("max", "maximum"), ("emin", "exclusiveMinimum"), ("emax", "exclusiveMaximum")] {
            if let Some(p) = o.get(k) {
                b.push_str(&format!(",\"{}\":{}", jk, abs::point_value(p)));
            }
        }
        b.push('}');
        return format!("{{\"allOf\":[{},{}]}}", a, b);
    }
    // "nul": the nullable spelling {"type": ["integer", "null"]}
    let mut t = if o.contains_key("nul") {
        String::from("{\"type\":[\"integer\",\"null\"]")
    } else {
        String::from("{\"type\":\"integer\"")
    };
    for (k, jk) in [
        ("min", "minimum"),
        ("max", "maximum"),
        ("emin", "exclusiveMinimum"),
        ("emax", "exclusiveMaximum"),
        ("def", "default"),
    ] {
        if let Some(p) = o.get(k) {
            t.push_str(&format!(",\"{}\":{}", jk, abs::point_value(p)));
        }
    }
    if let Some(m) = o.get("mult") {
        t.push_str(&format!(",\"multipleOf\":{}", m));
    }
    if let Some(f) = o.get("fmt") {
        t.push_str(&format!(",\"format\":{}", f));
    }
    t.push('}');
    t
}

fn in_type(ty: &str, n: i128) -> Option<bool> {
    let (lo, hi): (i128, i128) = match ty {
        "i8" => (i8::MIN as i128, i8::MAX as i128),
        "u8" => (0, u8::MAX as i128),
        "i16" => (i16::MIN as i128, i16::MAX as i128),
        "u16" => (0, u16::MAX as i128),
        "i32" => (i32::MIN as i128, i32::MAX as i128),
        "u32" => (0, u32::MAX as i128),
        "i64" => (i64::MIN as i128, i64::MAX as i128),
        "u64" => (0, u64::MAX as i128),
        "::std::num::NonZeroU8" => (1, u8::MAX as i128),
        "::std::num::NonZeroU16" => (1, u16::MAX as i128),
        "::std::num::NonZeroU32" => (1, u32::MAX as i128),
        "::std::num::NonZeroU64" => (1, u64::MAX as i128),
        _ => return None,
    };
    Some(lo <= n && n <= hi)
}

fn fmt_type(f: &str) -> Option<&'static str> {
    Some(match f {
        "int8" => "i8",
        "uint8" => "u8",
        "int16" => "i16",
        "uint16" => "u16",
        "int" | "int32" => "i32",
        "uint" | "uint32" => "u32",
        "int64" => "i64",
        "uint64" => "u64",
        _ => return None,
    })
}

/// independent (i128) evaluation of "n is admitted by the schema", for the
/// oracle self-check of IntSchema!Admitted
fn admitted(s: &Value, n: i128) -> bool {
    let empty = serde_json::Map::new();
    let o = s.as_object().unwrap_or(&empty);
    let g = |k: &str| o.get(k).map(abs::point_value);
    if let Some(m) = g("min") {
        if n < m {
            return false;
        }
    }
    if let Some(m) = g("max") {
        if n > m {
            return false;
        }
    }
    if let Some(m) = g("emin") {
        if n <= m {
            return false;
        }
    }
    if let Some(m) = g("emax") {
        if n >= m {
            return false;
        }
    }
    if o.contains_key("mult") && n.rem_euclid(2) != 0 {
        return false;
    }
    if let Some(f) = o.get("fmt").and_then(|f| f.as_str()) {
        if let Some(t) = fmt_type(f) {
            if !in_type(t, n).unwrap() {
                return false;
            }
        }
    }
    true
}

pub fn run(cases: &str, events: &str) {
    let cases = read_cases(cases);
    let mut out = Out::new(events);
    for (i, c) in cases.iter().enumerate() {
        let s = &c["s"];
        let text = int_schema_text(s);
        let parsed: Result<schemars::schema::Schema, _> = serde_json::from_str(&text);
        let (res, ty) = match parsed {
            Err(e) => ("parse".to_string(), e.to_string()),
            Ok(schema) => {
                let r = guarded(|| {
                    let mut ts = TypeSpace::default();
                    match ts.add_type(&schema) {
                        Err(_) => ("err".to_string(), String::new()),
                        Ok(id) => {
                            let t = ts.get_type(&id).unwrap();
                            // the nullable spelling yields Option<T>: the selection is T
                            let inner = match t.details() {
                                TypeDetails::Option(inner) => Some(inner),
                                _ => None,
                            };
                            let t = match inner {
                                Some(inner) => ts.get_type(&inner).unwrap(),
                                None => t,
                            };
                            let name = match t.details() {
                                TypeDetails::Builtin(n) => n.to_string(),
                                TypeDetails::String => "String".to_string(),
                                TypeDetails::Unit => "()".to_string(),
                                _ => format!("other:{}", t.name()),
                            };
                            ("ok".to_string(), name)
                        }
                    }
                });
                match r {
                    Ok(x) => x,
                    Err(_) => ("panic".to_string(), String::new()),
                }
            }
        };
        let mut ev = json!({"ev": "int", "case": i + 1, "s": s, "res": res, "ty": ty});
        // oracle self-check sample: independent evaluation on a few probes
        if i % 16 == 0 {
            let mut probes = Vec::new();
            for (a, base) in abs::ANCHORS {
                for o in [-1i64, 0, 1] {
                    let n = base + o as i128;
                    probes.push(json!({
                        "p": {"a": a, "o": o},
                        "adm": admitted(s, n),
                        "fits": in_type(&ty, n).unwrap_or(false),
                    }));
                }
            }
            ev["oracle"] = Value::Array(probes);
        }
        out.ev(ev);
    }
}

/// C10, string and number formats: (type, format, spelling) -> the type add_type chooses
pub fn run_formats(cases: &str, events: &str) {
    let cases = read_cases(cases);
    let mut out = Out::new(events);
    for (i, c) in cases.iter().enumerate() {
        let ty = c["ty"].as_str().unwrap();
        let fmt = c["fmt"].as_str().unwrap();
        let f = if fmt.is_empty() { String::new() } else { format!(",\"format\":\"{}\"", fmt) };
        let text = match c["spelling"].as_str().unwrap() {
            "nullable" => format!("{{\"type\":[\"{}\",\"null\"]{}}}", ty, f),
            "split" => format!("{{\"allOf\":[{{\"type\":\"{}\"{}}},{{\"type\":\"{}\",\"description\":\"second\"}}]}}", ty, f, ty),
            _ => format!("{{\"type\":\"{}\"{}}}", ty, f),
        };
        let schema: schemars::schema::Schema = serde_json::from_str(&text).unwrap();
        let r = guarded(|| {
            let mut ts = TypeSpace::default();
            match ts.add_type(&schema) {
                Err(_) => ("err".to_string(), String::new()),
                Ok(id) => {
                    let t = ts.get_type(&id).unwrap();
                    let inner = match t.details() {
                        TypeDetails::Option(inner) => Some(inner),
                        _ => None,
                    };
                    let t = match inner {
                        Some(inner) => ts.get_type(&inner).unwrap(),
                        None => t,
                    };
                    let name = match t.details() {
                        TypeDetails::Builtin(n) => n.to_string(),
                        TypeDetails::String => "String".to_string(),
                        _ => format!("other:{}", t.name()),
                    };
                    ("ok".to_string(), name.chars().filter(|c| !c.is_whitespace()).collect())
                }
            }
        });
        let (res, chosen) = r.unwrap_or_else(|_| ("panic".to_string(), String::new()));
        out.ev(json!({"ev": "fmt", "case": i + 1, "c": c, "res": res, "chosen": chosen}));
    }
}
