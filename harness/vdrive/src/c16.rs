//! C16: call histories against one type space; one "call" event per public
//! call (observed at its return), "begin"/"final" events around each case.
use crate::{abs, doc, guarded, inv, read_cases, Out};
use serde_json::{json, Value};
use typify_impl::{TypeId, TypeSpace};

fn call_key(call: &Value) -> String {
    let mut t = String::new();
    match call["call"].as_str().unwrap() {
        "add_type" => {
            abs::schema_text(&call["schema"], &mut t);
            format!("T:{}|{}", t, call["hint"].as_str().unwrap_or(""))
        }
        "add_ref_types" => {
            for pair in call["defs"].as_array().unwrap() {
                t.push_str(pair[0].as_str().unwrap());
                t.push('=');
                abs::schema_text(&pair[1], &mut t);
                t.push(';');
            }
            format!("R:{}", t)
        }
        _ => format!("D:{}", doc::doc_text(&call["doc"])),
    }
}

fn def_keys(call: &Value) -> Vec<String> {
    match call["call"].as_str().unwrap() {
        "add_ref_types" => call["defs"].as_array().unwrap().iter().map(|p| p[0].as_str().unwrap().to_string()).collect(),
        "add_root_schema" => {
            let mut ks: Vec<String> = call["doc"]["defs"].as_object().map(|o| o.keys().cloned().collect()).unwrap_or_default();
            if let Some(t) = call["doc"]["root"].get("title").and_then(|t| t.as_str()) {
                ks.push(t.to_string());
            }
            ks
        }
        _ => vec![],
    }
}

pub fn render_defs(ts: &TypeSpace) -> (String, Vec<Value>, Vec<String>) {
    match guarded(|| ts.to_stream()) {
        Err(_) => ("panic".into(), vec![], vec![]),
        Ok(stream) => match inv::def_digests(stream) {
            Err(_) => ("unparsable".into(), vec![], vec![]),
            Ok(ds) => {
                let mut dups = Vec::new();
                for w in ds.windows(2) {
                    if w[0].0 == w[1].0 && !dups.contains(&w[0].0) {
                        dups.push(w[0].0.clone());
                    }
                }
                (
                    "ok".into(),
                    ds.iter().map(|(n, h)| json!({"name": n, "h": h})).collect(),
                    dups,
                )
            }
        },
    }
}

/// A cycle that runs only through unnamed types (Box, Option, Vec, ...): naming or rendering such a
/// type recurses without bound (a stack overflow cannot be caught), so it is detected on the
/// internal snapshot first.
fn unnamed_cycle(ts: &TypeSpace) -> bool {
    let snap = ts.verif_snapshot();
    let unnamed = ["box", "option", "vec", "map", "set", "tuple", "array", "reference"];
    let mut edges: std::collections::BTreeMap<u64, Vec<u64>> = Default::default();
    for e in snap["entries"].as_array().unwrap() {
        if unnamed.contains(&e["kind"].as_str().unwrap_or("")) {
            let id = e["id"].as_u64().unwrap();
            let to = e["edges"].as_array().unwrap().iter().filter_map(|x| x["to"].as_u64()).collect();
            edges.insert(id, to);
        }
    }
    // iterative reachability: n is on a cycle if it reaches itself through unnamed nodes
    for &start in edges.keys() {
        let mut seen = std::collections::BTreeSet::new();
        let mut stack = edges[&start].clone();
        while let Some(n) = stack.pop() {
            if n == start {
                return true;
            }
            if seen.insert(n) {
                if let Some(next) = edges.get(&n) {
                    stack.extend(next.iter().copied());
                }
            }
        }
    }
    false
}

/// Projection of the identifier-allocation state and the de-duplication indexes (hook
/// verif_snapshot) for the implementation model spec/TypeSpaceImpl.tla: one "ts" event per call.
fn ts_state(ts: &TypeSpace) -> Value {
    let snap = ts.verif_snapshot();
    let named = ["struct", "enum", "newtype"];
    let ents: Vec<Value> = snap["entries"]
        .as_array()
        .unwrap()
        .iter()
        .map(|e| {
            let kind = e["kind"].as_str().unwrap_or("");
            let mut to: Vec<u64> = e["edges"].as_array().unwrap().iter().filter_map(|x| x["to"].as_u64()).collect();
            to.sort();
            to.dedup();
            json!({"id": e["id"], "named": named.contains(&kind), "kind": kind, "name": e["name"], "to": to})
        })
        .collect();
    json!({"next_id": snap["next_id"], "ents": ents, "names": snap["name_to_id"], "refs": snap["ref_to_id"]})
}

pub fn run(cases: &str, events: &str) {
    let cases = read_cases(cases);
    let mut out = Out::new(events);
    let mut tsout = Out::new(&format!("{}.ts", events));
    for (i, case) in cases.iter().enumerate() {
        let calls = case["calls"].as_array().cloned().unwrap_or_default();
        let mut ts = TypeSpace::default();
        let mut roots: Vec<TypeId> = Vec::new();
        out.ev(json!({"ev": "begin", "case": i + 1}));
        tsout.ev(json!({"ev": "ts_begin", "case": i + 1}));
        let mut last_defs: Vec<Value> = vec![];
        let mut last_rres = "ok".to_string();
        for (k, call) in calls.iter().enumerate() {
            let (res, raw, id) = doc::do_call(&mut ts, call);
            if let Some(id) = id {
                roots.push(id);
            }
            {
                let mut e = ts_state(&ts);
                e["ev"] = json!("ts");
                e["case"] = json!(i + 1);
                e["seq"] = json!(k + 1);
                e["res"] = json!(res);
                e["id"] = json!(raw);
                e["tpl"] = case["hist"][k].clone();
                e["defkeys"] = json!(def_keys(call));
                tsout.ev(e);
            }
            if unnamed_cycle(&ts) {
                // nothing promised so far can still be described: report and stop this history
                out.ev(json!({
                    "ev": "call", "case": i + 1, "seq": k + 1,
                    "tpl": case["hist"][k], "key": doc::fnv(&call_key(call)),
                    "res": res, "id": raw, "known": [], "defkeys": def_keys(call),
                    "rres": "unbounded", "defs": [], "dups": [],
                }));
                last_defs = vec![];
                last_rres = "unbounded".to_string();
                break;
            }
            let known = doc::closure(&ts, &roots)
                .into_iter()
                .map(|mut p| {
                    p.as_object_mut().unwrap().remove("edges");
                    p
                })
                .collect::<Vec<_>>();
            let (rres, defs, dups) = render_defs(&ts);
            last_defs = defs.clone();
            last_rres = rres.clone();
            out.ev(json!({
                "ev": "call", "case": i + 1, "seq": k + 1,
                "tpl": case["hist"][k], "key": doc::fnv(&call_key(call)),
                "res": res, "id": raw, "known": known, "defkeys": def_keys(call),
                "rres": rres, "defs": defs, "dups": dups,
            }));
        }
        out.ev(json!({"ev": "final", "case": i + 1, "group": case["group"], "rres": last_rres, "defs": last_defs}));
    }
}
