//! Item inventory of a rendered module: `to_stream()` parsed with syn and
//! projected to JSON (uniform records, strings only, so TLC can read it).
use proc_macro2::TokenStream;
use quote::ToTokens;
use serde_json::{json, Value};

pub fn norm_tokens(ts: &TokenStream) -> String {
    let s: String = ts.to_string().chars().filter(|c| !c.is_whitespace()).collect();
    s.replace(",>", ">")
}
pub fn norm_ty(t: &syn::Type) -> String {
    norm_tokens(&t.to_token_stream())
}

/// the outermost type constructor of a type (path without generic arguments)
/// and the constructor of its first generic argument: strings are atomic for
/// TLC, so the structure it needs is projected here
pub fn ty_heads(t: &syn::Type) -> (String, String) {
    fn head(t: &syn::Type) -> (String, Option<syn::Type>) {
        match t {
            syn::Type::Path(p) => {
                let mut segs = Vec::new();
                let mut arg = None;
                for seg in &p.path.segments {
                    segs.push(seg.ident.to_string());
                    if let syn::PathArguments::AngleBracketed(a) = &seg.arguments {
                        for ga in &a.args {
                            if let syn::GenericArgument::Type(t) = ga {
                                if arg.is_none() {
                                    arg = Some(t.clone());
                                }
                            }
                        }
                    }
                }
                let lead = if p.path.leading_colon.is_some() { "::" } else { "" };
                (format!("{}{}", lead, segs.join("::")), arg)
            }
            syn::Type::Tuple(_) => ("(tuple)".to_string(), None),
            syn::Type::Array(_) => ("[array]".to_string(), None),
            _ => ("?".to_string(), None),
        }
    }
    let (h1, a) = head(t);
    let h2 = a.map(|t| head(&t).0).unwrap_or_default();
    (h1, h2)
}

/// every type path occurring in a type, without generic arguments
pub fn ty_paths(t: &syn::Type) -> Vec<String> {
    struct V(Vec<String>);
    impl<'ast> syn::visit::Visit<'ast> for V {
        fn visit_type_path(&mut self, p: &'ast syn::TypePath) {
            let lead = if p.path.leading_colon.is_some() { "::" } else { "" };
            let segs: Vec<String> = p.path.segments.iter().map(|s| s.ident.to_string()).collect();
            self.0.push(format!("{}{}", lead, segs.join("::")));
            syn::visit::visit_type_path(self, p);
        }
    }
    let mut v = V(vec![]);
    syn::visit::Visit::visit_type(&mut v, t);
    v.0
}

fn vis(v: &syn::Visibility) -> &'static str {
    match v {
        syn::Visibility::Public(_) => "pub",
        syn::Visibility::Restricted(_) => "restricted",
        syn::Visibility::Inherited => "priv",
    }
}

/// (derives, serde attribute entries, other attribute names)
fn attrs(attrs: &[syn::Attribute]) -> (Vec<String>, Vec<String>, Vec<String>) {
    let mut derives = Vec::new();
    let mut serde = Vec::new();
    let mut other = Vec::new();
    for a in attrs {
        let path = norm_tokens(&a.path().to_token_stream());
        if path == "derive" {
            if let Ok(list) = a.parse_args_with(
                syn::punctuated::Punctuated::<syn::Path, syn::Token![,]>::parse_terminated,
            ) {
                for p in list {
                    derives.push(norm_tokens(&p.to_token_stream()));
                }
            }
        } else if path == "serde" {
            if let Ok(list) = a.parse_args_with(
                syn::punctuated::Punctuated::<syn::Meta, syn::Token![,]>::parse_terminated,
            ) {
                for m in list {
                    // keep string literals intact (they may contain spaces)
                    let s = match &m {
                        syn::Meta::NameValue(nv) => {
                            let k = norm_tokens(&nv.path.to_token_stream());
                            let v = match &nv.value {
                                syn::Expr::Lit(syn::ExprLit { lit: syn::Lit::Str(s), .. }) => {
                                    format!("{:?}", s.value())
                                }
                                e => norm_tokens(&e.to_token_stream()),
                            };
                            format!("{}={}", k, v)
                        }
                        other => norm_tokens(&other.to_token_stream()),
                    };
                    serde.push(s);
                }
            }
        } else if path == "doc" {
        } else {
            other.push(path);
        }
    }
    (derives, serde, other)
}

fn serde_get(serde: &[String], key: &str) -> Option<String> {
    let pre = format!("{}=", key);
    serde.iter().find(|s| s.starts_with(&pre)).map(|s| {
        let v = &s[pre.len()..];
        serde_json::from_str::<String>(v).unwrap_or_else(|_| v.to_string())
    })
}

fn fields(fs: &syn::Fields) -> (String, Vec<Value>) {
    match fs {
        syn::Fields::Unit => ("unit".to_string(), vec![]),
        syn::Fields::Named(n) => (
            "named".to_string(),
            n.named
                .iter()
                .map(|f| {
                    let (_, serde, _) = attrs(&f.attrs);
                    let id = f.ident.as_ref().unwrap().to_string();
                    let wire = serde_get(&serde, "rename").unwrap_or_else(|| {
                        id.strip_prefix("r#").map(|s| s.to_string()).unwrap_or(id.clone())
                    });
                    let (h1, h2) = ty_heads(&f.ty);
                    json!({
                        "name": id,
                        "wire": wire,
                        "head": h1,
                        "head2": h2,
                        "paths": ty_paths(&f.ty),
                        "ty": norm_ty(&f.ty),
                        "vis": vis(&f.vis),
                        "serde": serde,
                        "has_default": serde.iter().any(|s| s == "default" || s.starts_with("default=")),
                        "flatten": serde.iter().any(|s| s == "flatten"),
                        "skip_if": serde_get(&serde, "skip_serializing_if").unwrap_or_default(),
                    })
                })
                .collect(),
        ),
        syn::Fields::Unnamed(u) => (
            "tuple".to_string(),
            u.unnamed
                .iter()
                .enumerate()
                .map(|(i, f)| {
                    let (_, serde, _) = attrs(&f.attrs);
                    let (h1, h2) = ty_heads(&f.ty);
                    json!({
                        "name": i.to_string(),
                        "wire": i.to_string(),
                        "head": h1,
                        "head2": h2,
                        "paths": ty_paths(&f.ty),
                        "ty": norm_ty(&f.ty),
                        "vis": vis(&f.vis),
                        "serde": serde,
                        "has_default": false,
                        "flatten": false,
                        "skip_if": "",
                    })
                })
                .collect(),
        ),
    }
}

fn blank(module: &str, kind: &str, name: &str) -> Value {
    json!({
        "mod": module, "kind": kind, "name": name, "vis": "priv", "shape": "",
        "derives": [], "serde": [], "attrs": [], "fields": [], "variants": [],
        "trait_": "", "for_": "", "fns": [], "generics": "",
    })
}

fn walk(module: &str, items: &[syn::Item], out: &mut Vec<Value>) {
    for it in items {
        match it {
            syn::Item::Struct(s) => {
                let (d, se, o) = attrs(&s.attrs);
                let (shape, fs) = fields(&s.fields);
                let mut v = blank(module, "struct", &s.ident.to_string());
                v["vis"] = json!(vis(&s.vis));
                v["shape"] = json!(shape);
                v["derives"] = json!(d);
                v["serde"] = json!(se);
                v["attrs"] = json!(o);
                v["fields"] = json!(fs);
                v["generics"] = json!(norm_tokens(&s.generics.to_token_stream()));
                out.push(v);
            }
            syn::Item::Enum(e) => {
                let (d, se, o) = attrs(&e.attrs);
                let mut v = blank(module, "enum", &e.ident.to_string());
                v["vis"] = json!(vis(&e.vis));
                v["derives"] = json!(d);
                v["serde"] = json!(se);
                v["attrs"] = json!(o);
                v["variants"] = json!(e
                    .variants
                    .iter()
                    .map(|va| {
                        let (_, vse, _) = attrs(&va.attrs);
                        let (shape, fs) = fields(&va.fields);
                        let id = va.ident.to_string();
                        let wire = serde_get(&vse, "rename").unwrap_or(id.clone());
                        json!({"name": id, "wire": wire, "shape": shape, "serde": vse, "fields": fs})
                    })
                    .collect::<Vec<_>>());
                out.push(v);
            }
            syn::Item::Impl(i) => {
                let tr = i
                    .trait_
                    .as_ref()
                    .map(|(_, p, _)| norm_tokens(&p.to_token_stream()))
                    .unwrap_or_default();
                let mut v = blank(module, "impl", "");
                v["trait_"] = json!(tr);
                v["for_"] = json!(norm_ty(&i.self_ty));
                v["generics"] = json!(norm_tokens(&i.generics.to_token_stream()));
                v["fns"] = json!(i
                    .items
                    .iter()
                    .filter_map(|x| match x {
                        syn::ImplItem::Fn(f) => Some(json!({
                            "name": f.sig.ident.to_string(),
                            "vis": vis(&f.vis),
                        })),
                        _ => None,
                    })
                    .collect::<Vec<_>>());
                out.push(v);
            }
            syn::Item::Mod(m) => {
                let name = m.ident.to_string();
                let mut v = blank(module, "mod", &name);
                v["vis"] = json!(vis(&m.vis));
                out.push(v);
                if let Some((_, items)) = &m.content {
                    let sub = if module.is_empty() { name } else { format!("{}::{}", module, name) };
                    walk(&sub, items, out);
                }
            }
            syn::Item::Fn(f) => {
                let mut v = blank(module, "fn", &f.sig.ident.to_string());
                v["vis"] = json!(vis(&f.vis));
                v["trait_"] = json!(match &f.sig.output {
                    syn::ReturnType::Default => String::new(),
                    syn::ReturnType::Type(_, t) => norm_ty(t),
                });
                out.push(v);
            }
            syn::Item::Type(t) => {
                let mut v = blank(module, "type", &t.ident.to_string());
                v["vis"] = json!(vis(&t.vis));
                out.push(v);
            }
            syn::Item::Use(_) => {}
            other => {
                let v = blank(module, "other", &norm_tokens(&other.to_token_stream()).chars().take(40).collect::<String>());
                out.push(v);
            }
        }
    }
}

/// Ok(inventory) or Err(message) when the tokens are not a Rust file.
pub fn inventory(ts: TokenStream) -> Result<Vec<Value>, String> {
    let file = syn::parse2::<syn::File>(ts).map_err(|e| e.to_string())?;
    let mut out = Vec::new();
    walk("", &file.items, &mut out);
    // a derive that meets a hand-written impl of the same trait for the same type (same module):
    // two impls of one trait, E0119
    // a bare derive (`Clone`) is matched by its name, a qualified one (`::serde::Deserialize`) by its
    // whole path: a foreign macro that merely shares the short name is a different macro
    let full = |p: &str| -> String { p.split('<').next().unwrap_or(p).trim().trim_start_matches("::").replace(' ', "") };
    let last = |p: &str| -> String {
        let p = full(p);
        p.rsplit("::").next().unwrap_or(&p).to_string()
    };
    let same = |derive: &str, tr: &str| -> bool {
        if full(derive).contains("::") { full(derive) == full(tr) } else { last(derive) == last(tr) }
    };
    let impls: Vec<(String, String, String)> = out
        .iter()
        .filter(|v| v["kind"] == "impl" && v["trait_"].as_str().map(|t| !t.is_empty()).unwrap_or(false))
        .map(|v| {
            (
                v["mod"].as_str().unwrap_or("").to_string(),
                v["for_"].as_str().unwrap_or("").to_string(),
                v["trait_"].as_str().unwrap_or("").to_string(),
            )
        })
        .collect();
    for v in out.iter_mut() {
        if v["kind"] == "struct" || v["kind"] == "enum" {
            let (m, n) = (v["mod"].as_str().unwrap_or("").to_string(), v["name"].as_str().unwrap_or("").to_string());
            let conflicts: Vec<String> = v["derives"]
                .as_array()
                .cloned()
                .unwrap_or_default()
                .iter()
                .filter_map(|d| d.as_str().map(|d| d.to_string()))
                .filter(|d| impls.iter().any(|(im, f, t)| *im == m && *f == n && same(d, t)))
                .collect();
            v["derive_conflicts"] = json!(conflicts);
            // traits implemented by hand for this type (full path, generics dropped)
            let manual: Vec<String> = impls.iter().filter(|(im, f, _)| *im == m && *f == n).map(|(_, _, t)| full(t)).collect();
            v["manual_impls"] = json!(manual);
        }
    }
    Ok(out)
}

pub fn pretty(ts: TokenStream) -> Result<String, String> {
    let file = syn::parse2::<syn::File>(ts).map_err(|e| e.to_string())?;
    Ok(prettyplease::unparse(&file))
}

/// (name, digest of the item's tokens) for every top-level struct/enum
pub fn def_digests(ts: TokenStream) -> Result<Vec<(String, String)>, String> {
    let file = syn::parse2::<syn::File>(ts).map_err(|e| e.to_string())?;
    let mut out = Vec::new();
    // the impl blocks of a type belong to its definition: (self type, tokens), sorted per type
    let mut impls: std::collections::BTreeMap<String, Vec<String>> = Default::default();
    for it in &file.items {
        if let syn::Item::Impl(i) = it {
            impls.entry(norm_ty(&i.self_ty)).or_default().push(norm_tokens(&i.to_token_stream()));
        }
    }
    for it in &file.items {
        let (name, mut toks) = match it {
            syn::Item::Struct(s) => (s.ident.to_string(), norm_tokens(&s.to_token_stream())),
            syn::Item::Enum(e) => (e.ident.to_string(), norm_tokens(&e.to_token_stream())),
            _ => continue,
        };
        if let Some(list) = impls.get(&name) {
            let mut list = list.clone();
            list.sort();
            toks.push_str(&list.join("\n"));
        }
        out.push((name, crate::doc::fnv(&toks)));
    }
    out.sort();
    Ok(out)
}
