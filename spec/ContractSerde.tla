--------------------------- MODULE ContractSerde ---------------------------
(***************************************************************************)
(* L1 contract for the behaviour of a generated type on the wire:          *)
(*   C02  every schema-valid instance deserialises                         *)
(*   C03  the round trip keeps declared data, stays valid, is idempotent   *)
(*   C05  a single-constraint violation of an enforced construct is        *)
(*        rejected                                                         *)
(* An observation (event "deser") of probe value v on the type generated   *)
(* for schema S carries: ok (deserialised), ser_ok, out (serialised back), *)
(* rt2_ok, out2 (second round trip).                                       *)
(***************************************************************************)
EXTENDS Schema

(* ---- C02 --------------------------------------------------------------- *)
C02_OK(S, v, defs, e) == Valid(S, v, defs) => e.ok

(* ---- C03 --------------------------------------------------------------- *)
RECURSIVE Resolve(_, _, _, _)
(* the subschema that governs the value v: follow $ref, the matching oneOf /
   anyOf branch; n bounds the number of steps *)
Resolve(S, v, defs, n) ==
    IF n = 0 \/ SHas(S, "bool") THEN S
    ELSE IF SHas(S, "ref") THEN Resolve(defs[S.ref], v, defs, n - 1)
    ELSE IF SHas(S, "oneOf") /\ \E i \in DOMAIN S.oneOf : Valid(S.oneOf[i], v, defs)
         THEN Resolve(S.oneOf[CHOOSE i \in DOMAIN S.oneOf : Valid(S.oneOf[i], v, defs)], v, defs, n - 1)
    ELSE IF SHas(S, "anyOf") /\ \E i \in DOMAIN S.anyOf : Valid(S.anyOf[i], v, defs)
         THEN Resolve(S.anyOf[CHOOSE i \in DOMAIN S.anyOf : Valid(S.anyOf[i], v, defs)], v, defs, n - 1)
    ELSE S

Unknown == [unknown |-> TRUE]
(* schema of member k of an object governed by S; Unknown when S does not
   say (the check is then lenient) *)
PropSchema(S, k) ==
    IF SHas(S, "properties") /\ k \in DOMAIN S.properties THEN S.properties[k]
    ELSE IF SHas(S, "allOf") /\ \E i \in DOMAIN S.allOf :
                SHas(S.allOf[i], "properties") /\ k \in DOMAIN S.allOf[i].properties
         THEN LET i == CHOOSE j \in DOMAIN S.allOf :
                          SHas(S.allOf[j], "properties") /\ k \in DOMAIN S.allOf[j].properties
              IN S.allOf[i].properties[k]
    ELSE IF SHas(S, "additionalProperties") THEN S.additionalProperties
    ELSE Unknown
ItemSchema(S, i) ==
    IF SHas(S, "itemsList") /\ i <= Len(S.itemsList) THEN S.itemsList[i]
    ELSE IF SHas(S, "items") THEN S.items ELSE Unknown

(* may a member with value x be added where the instance had none? only a
   schema default (up to nested defaults) or an intrinsic default (null, [],
   {}); lenient where the governing schema is not known *)
AllowedAdd(Sp, x, defs) ==
    \/ SHas(Sp, "unknown") \/ SHas(Sp, "allOf") \/ SHas(Sp, "bool")
    \/ IsEmptyish(x)
    \/ LET R == Resolve(Sp, x, defs, 3) IN
         \/ SHas(Sp, "default") /\ Contained(Prune(Sp.default), Prune(x))
         \/ SHas(R, "default") /\ Contained(Prune(R.default), Prune(x))
         \/ SHas(R, "unknown")

RECURSIVE AddedOK(_, _, _, _)
AddedOK(S0, v, w, defs) ==
    LET S == Resolve(S0, v, defs, 4) IN
    IF SHas(S, "unknown") \/ SHas(S, "bool") THEN TRUE
    ELSE IF v.t = "obj" /\ w.t = "obj" THEN
        \A i \in DOMAIN w.k :
            IF HasKey(v, w.k[i]) THEN AddedOK(PropSchema(S, w.k[i]), Get(v, w.k[i]), w.v[i], defs)
            ELSE AllowedAdd(PropSchema(S, w.k[i]), w.v[i], defs)
    ELSE IF v.t = "arr" /\ w.t = "arr" /\ Len(v.v) = Len(w.v) THEN
        \A i \in DOMAIN w.v : AddedOK(ItemSchema(S, i), v.v[i], w.v[i], defs)
    ELSE TRUE

C03_Applies(S, v, defs, e) == Valid(S, v, defs) /\ OnlyDeclared(S, v, defs) /\ e.ok
C03_Diag(S, v, defs, e) ==
    IF ~C03_Applies(S, v, defs, e) THEN "ok"
    ELSE IF ~e.ser_ok THEN "C03/SerializeFailed"
    ELSE IF ~Valid(S, e.out, defs) THEN "C03/InvalidAfterRoundTrip"
    ELSE IF ~Contained(Prune(v), Prune(e.out)) THEN "C03/DeclaredDataLost"
    ELSE IF ~AddedOK(S, v, e.out, defs) THEN "C03/UnexpectedAddition"
    ELSE IF ~e.rt2_ok \/ ~JEq(e.out2, e.out) THEN "C03/NotIdempotent"
    ELSE "ok"
=============================================================================
