--------------------------- MODULE ContractSerde ---------------------------
(***************************************************************************)
(* L1 contract for the behaviour of a generated type on the wire:          *)
(*   C02  every schema-valid instance deserialises                         *)
(*   C03  the round trip keeps declared data, stays valid, is idempotent   *)
(*   C05  a single-constraint violation of an enforced construct is        *)
(*        rejected                                                         *)
(* An observation (event "deser") of probe value v on the type generated   *)
(* for schema S carries: ok (deserialised), ser_ok, out (serialised back), *)
(* rt2_ok, out2 (second round trip).                                       *)
(***************************************************************************)
EXTENDS Schema

(* ---- C02 --------------------------------------------------------------- *)
C02_OK(S, v, defs, e) == Valid(S, v, defs) => e.ok

(* ---- C03 --------------------------------------------------------------- *)
RECURSIVE Resolve(_, _, _, _)
(* the subschema that governs the value v: follow $ref, the matching oneOf /
   anyOf branch; n bounds the number of steps *)
Resolve(S, v, defs, n) ==
    IF n = 0 \/ SHas(S, "bool") THEN S
    ELSE IF SHas(S, "ref") THEN Resolve(defs[S.ref], v, defs, n - 1)
    ELSE IF SHas(S, "oneOf") /\ \E i \in DOMAIN S.oneOf : Valid(S.oneOf[i], v, defs)
         THEN Resolve(S.oneOf[CHOOSE i \in DOMAIN S.oneOf : Valid(S.oneOf[i], v, defs)], v, defs, n - 1)
    ELSE IF SHas(S, "anyOf") /\ \E i \in DOMAIN S.anyOf : Valid(S.anyOf[i], v, defs)
         THEN Resolve(S.anyOf[CHOOSE i \in DOMAIN S.anyOf : Valid(S.anyOf[i], v, defs)], v, defs, n - 1)
    ELSE S

Unknown == [unknown |-> TRUE]
(* schema of member k of an object governed by S; Unknown when S does not
   say (the check is then lenient) *)
PropSchema(S, k) ==
    IF SHas(S, "properties") /\ k \in DOMAIN S.properties THEN S.properties[k]
    ELSE IF SHas(S, "allOf") /\ \E i \in DOMAIN S.allOf :
                SHas(S.allOf[i], "properties") /\ k \in DOMAIN S.allOf[i].properties
         THEN LET i == CHOOSE j \in DOMAIN S.allOf :
                          SHas(S.allOf[j], "properties") /\ k \in DOMAIN S.allOf[j].properties
              IN S.allOf[i].properties[k]
    ELSE IF SHas(S, "additionalProperties") THEN S.additionalProperties
    ELSE Unknown
ItemSchema(S, i) ==
    IF SHas(S, "itemsList") /\ i <= Len(S.itemsList) THEN S.itemsList[i]
    ELSE IF SHas(S, "items") THEN S.items ELSE Unknown

(* may a member with value x be added where the instance had none? only a
   schema default (up to nested defaults) or an intrinsic default (null, [],
   {}); lenient where the governing schema is not known *)
AllowedAdd(Sp, x, defs) ==
    \/ SHas(Sp, "unknown") \/ SHas(Sp, "allOf") \/ SHas(Sp, "bool")
    \/ IsEmptyish(x)
    \/ LET R == Resolve(Sp, x, defs, 3) IN
         \/ SHas(Sp, "default") /\ Contained(Prune(Sp.default), Prune(x))
         \/ SHas(R, "default") /\ Contained(Prune(R.default), Prune(x))
         \/ SHas(R, "unknown")

RECURSIVE AddedOK(_, _, _, _)
AddedOK(S0, v, w, defs) ==
    LET S == Resolve(S0, v, defs, 4) IN
    IF SHas(S, "unknown") \/ SHas(S, "bool") THEN TRUE
    ELSE IF v.t = "obj" /\ w.t = "obj" THEN
        \A i \in DOMAIN w.k :
            IF HasKey(v, w.k[i]) THEN AddedOK(PropSchema(S, w.k[i]), Get(v, w.k[i]), w.v[i], defs)
            ELSE AllowedAdd(PropSchema(S, w.k[i]), w.v[i], defs)
    ELSE IF v.t = "arr" /\ w.t = "arr" /\ Len(v.v) = Len(w.v) THEN
        \A i \in DOMAIN w.v : AddedOK(ItemSchema(S, i), v.v[i], w.v[i], defs)
    ELSE TRUE

C03_Applies(S, v, defs, e) == Valid(S, v, defs) /\ OnlyDeclared(S, v, defs) /\ e.ok
C03_Diag(S, v, defs, e) ==
    IF ~C03_Applies(S, v, defs, e) THEN "ok"
    ELSE IF ~e.ser_ok THEN "C03/SerializeFailed"
    ELSE IF ~Valid(S, e.out, defs) THEN "C03/InvalidAfterRoundTrip"
    ELSE IF ~Contained(Prune(v), Prune(e.out)) THEN "C03/DeclaredDataLost"
    ELSE IF ~AddedOK(S, v, e.out, defs) THEN "C03/UnexpectedAddition"
    ELSE IF ~e.rt2_ok \/ ~JEq(e.out2, e.out) THEN "C03/NotIdempotent"
    ELSE "ok"

(* ---- C05 --------------------------------------------------------------- *)
(* EnforcedViolation(S, v): v violates, somewhere, a constraint of a kind the
   property lists as enforced: the JSON type of a scalar, string length in
   scalar values, pattern, enum membership, a not-enum deny list, a required
   member whose schema does not admit null, a member of a closed object that
   the object does not declare, the arity of a fixed tuple, a tag value (an
   enum-valued property of a oneOf branch).  For a oneOf every branch must be
   violated in this sense.  Only such instances carry the obligation "is
   rejected"; other invalid instances (an array where an object is expected,
   an unenforced keyword) carry none. *)
ScalarTypes == {"string", "integer", "number", "boolean", "null"}
ClosedObj(S) == SHas(S, "additionalProperties") /\ SHas(S.additionalProperties, "bool") /\ ~S.additionalProperties.bool
FixedTuple(S) == SHas(S, "itemsList") /\ SHas(S, "minItems") /\ SHas(S, "maxItems")
                 /\ S.minItems = Len(S.itemsList) /\ S.maxItems = Len(S.itemsList)
RECURSIVE EnforcedViolation(_, _, _, _)
EnforcedViolation(S, v, defs, d) ==
    IF SHas(S, "bool") THEN FALSE
    ELSE IF SHas(S, "ref") THEN d > 0 /\ EnforcedViolation(defs[S.ref], v, defs, d - 1)
    ELSE IF SHas(S, "oneOf") THEN \A i \in DOMAIN S.oneOf : EnforcedViolation(S.oneOf[i], v, defs, d)
    ELSE
    \/ /\ Len(TypeSeq(S)) > 0 /\ \A i \in DOMAIN TypeSeq(S) : TypeSeq(S)[i] \in ScalarTypes
       /\ ~TypeOk(S, v)
    \/ /\ v.t = "str"
       /\ \/ SHas(S, "minLength") /\ Len(v.c) < S.minLength
          \/ SHas(S, "maxLength") /\ Len(v.c) > S.maxLength
          \/ SHas(S, "pattern") /\ ~PatOk(S.pattern, v.c)
    \/ SHas(S, "enum") /\ ~\E i \in DOMAIN S.enum : JEq(S.enum[i], v)
    \/ SHas(S, "not") /\ SHas(S["not"], "enum") /\ \E i \in DOMAIN S["not"].enum : JEq(S["not"].enum[i], v)
    \/ /\ v.t = "obj" /\ SHas(S, "properties")
       /\ \/ \E r \in ReqSet(S) : ~HasKey(v, r) /\ r \in DOMAIN S.properties /\ ~Valid(S.properties[r], JNull, defs)
          \/ ClosedObj(S) /\ \E i \in DOMAIN v.k : v.k[i] \notin DOMAIN S.properties
          \/ \E i \in DOMAIN v.k : v.k[i] \in DOMAIN S.properties
                                     /\ EnforcedViolation(S.properties[v.k[i]], v.v[i], defs, d)
    \/ /\ v.t = "obj" /\ ~SHas(S, "properties") /\ SHas(S, "additionalProperties")
       /\ \E i \in DOMAIN v.v : EnforcedViolation(S.additionalProperties, v.v[i], defs, d)
    \/ /\ v.t = "arr" /\ FixedTuple(S)
       /\ \/ Len(v.v) # Len(S.itemsList)
          \/ \E i \in DOMAIN v.v : EnforcedViolation(S.itemsList[i], v.v[i], defs, d)
    \/ /\ v.t = "arr" /\ SHas(S, "items")
       /\ \E i \in DOMAIN v.v : EnforcedViolation(S.items, v.v[i], defs, d)

C05_Applies(S, v, defs) == ~Valid(S, v, defs) /\ EnforcedViolation(S, v, defs, 3)
=============================================================================
