----------------------------- MODULE Trace_C09 -----------------------------
(***************************************************************************)
(* L4: trace validation for C09 (allOf means intersection, independent of  *)
(* subschema order).  A case holds one generated type per permutation of   *)
(* the subschema list, all probed with the same candidates.  Verdict at    *)
(* "endcase" over the recorded acceptance matrix:                          *)
(*   Intersection : Valid(allOf, v) => every permutation accepts v         *)
(*   OrderIndependent : all permutations agree on acceptance and on the    *)
(*                      round-trip output                                  *)
(*   Uninhabited : merging reports "never" and no candidate is valid =>    *)
(*                 every candidate is rejected by every permutation        *)
(***************************************************************************)
EXTENDS ContractSerde, Json, IOUtils

Rec == ndJsonDeserialize(IOEnv.TRACE)
VARIABLES l, nbad, nself, cur, acc, merges, stage
vars == <<l, nbad, nself, cur, acc, merges, stage>>
Init == l = 1 /\ nbad = 0 /\ nself = 0 /\ cur = << >> /\ acc = << >> /\ merges = << >> /\ stage = "none"
IsEvent(k) == l <= Len(Rec) /\ Rec[l].ev = k /\ l' = l + 1

CaseEv == /\ IsEvent("case") /\ cur' = Rec[l] /\ acc' = << >> /\ merges' = << >> /\ stage' = "none"
          /\ UNCHANGED <<nbad, nself>>
Merge == /\ IsEvent("merge") /\ merges' = (Rec[l].perm :> Rec[l].res) @@ merges
         /\ UNCHANGED <<nbad, nself, cur, acc, stage>>
Compile == /\ IsEvent("compile") /\ stage' = Rec[l].res /\ UNCHANGED <<nbad, nself, cur, acc, merges>>
Skip == /\ (IsEvent("ingest") \/ IsEvent("render") \/ IsEvent("bounds") \/ IsEvent("probe_na")
            \/ IsEvent("intro") \/ IsEvent("bounds_decl"))
        /\ UNCHANGED <<nbad, nself, cur, acc, merges, stage>>
Deser == /\ IsEvent("deser")
         /\ LET e == Rec[l] p == cur.probes[e.probe] IN
              acc' = (<<p.perm, p.cand>> :> [ok |-> e.ok, out |-> e.out]) @@ acc
         /\ UNCHANGED <<nbad, nself, cur, merges, stage>>
Panic == /\ IsEvent("probe_panic")
         /\ LET e == Rec[l] p == cur.probes[e.probe] IN
              acc' = (<<p.perm, p.cand>> :> [ok |-> FALSE, out |-> [t |-> "na"]]) @@ acc
         /\ UNCHANGED <<nbad, nself, cur, merges, stage>>

A == SAllOf(cur.subs)
CandVal(j) == cur.probes[CHOOSE i \in DOMAIN cur.probes : cur.probes[i].perm = 1 /\ cur.probes[i].cand = j].val
PermsC == 1 .. cur.nperm
CandsC == 1 .. cur.ncand
Complete == \A p \in PermsC, j \in CandsC : <<p, j>> \in DOMAIN acc
ValidC(j) == Valid(A, CandVal(j), cur.defs)

NotAccepted == { <<p, j>> \in PermsC \X CandsC : ValidC(j) /\ ~acc[<<p, j>>].ok }
OrderDep == { j \in CandsC : \E p, q \in PermsC :
                 \/ acc[<<p, j>>].ok # acc[<<q, j>>].ok
                 \/ acc[<<p, j>>].ok /\ ~JEq(acc[<<p, j>>].out, acc[<<q, j>>].out) }
NeverReported == \E p \in DOMAIN merges : merges[p] = "never"
Permissive == IF NeverReported /\ \A j \in CandsC : ~ValidC(j)
              THEN { <<p, j>> \in PermsC \X CandsC : acc[<<p, j>>].ok } ELSE {}

EndDiag == IF stage # "ok" \/ ~Complete THEN "ok"
           ELSE IF NotAccepted # {} THEN "C09/ValidUnderAllSubschemasRejected"
           ELSE IF OrderDep # {} THEN "C09/OrderDependent"
           ELSE IF Permissive # {} THEN "C09/UnsatisfiableButPermissive"
           ELSE "ok"

(* ---- known findings (known_findings.json), identified by the shape of the composition ------
   Every member of NotAccepted must be explained by the finding's cause. *)
Sub(i) == cur.subs[i]
IsArrSub(S) == SHas(S, "type") /\ S.type = "array"
ItemType(S) == IF SHas(S, "items") /\ SHas(S.items, "type") THEN S.items.type ELSE "none"
IntFormats9 == {"int8", "uint8", "int16", "uint16", "int", "int32", "uint", "uint32", "int64", "uint64"}
AllNever == \A p \in DOMAIN merges : merges[p] = "never"
Known(d) ==
    { k \in {"C09-array-item-conflict-rejects-empty-array", "C09-integer-formats-of-different-width-unsatisfiable",
             "C09-enum-value-outside-nonzero-type-panics"} :
        /\ d = "C09/ValidUnderAllSubschemasRejected"
        /\ CASE k = "C09-array-item-conflict-rejects-empty-array" ->
                 (* two array schemas whose item types differ: only [] satisfies both, and the merge
                    reports the conjunction unsatisfiable *)
                 /\ AllNever
                 /\ \E i, j \in DOMAIN cur.subs : i # j /\ IsArrSub(Sub(i)) /\ IsArrSub(Sub(j))
                        /\ ItemType(Sub(i)) # "none" /\ ItemType(Sub(j)) # "none"
                        /\ ItemType(Sub(i)) # ItemType(Sub(j))
                        /\ {ItemType(Sub(i)), ItemType(Sub(j))} # {"integer", "number"}
                 /\ \A x \in NotAccepted : LET v == CandVal(x[2]) IN v.t = "arr" /\ Len(v.v) = 0
             [] k = "C09-integer-formats-of-different-width-unsatisfiable" ->
                 /\ AllNever
                 /\ \E i, j \in DOMAIN cur.subs : i # j /\ SHas(Sub(i), "format") /\ SHas(Sub(j), "format")
                        /\ Sub(i).format \in IntFormats9 /\ Sub(j).format \in IntFormats9
                        /\ IntFormatType(Sub(i).format) # IntFormatType(Sub(j).format)
             [] k = "C09-enum-value-outside-nonzero-type-panics" ->
                 (* the merged schema excludes zero (minimum 1 / exclusiveMinimum 0), so a NonZero type is
                    chosen, while the enumeration still lists 0: NonZero::new(0).unwrap() panics in TryFrom *)
                 /\ \E i \in DOMAIN cur.subs : SHas(Sub(i), "enum")
                        /\ \E a \in DOMAIN Sub(i).enum : JEq(Sub(i).enum[a], JInt(0))
                 /\ \E i \in DOMAIN cur.subs :
                        \/ (SHas(Sub(i), "minimum") /\ JEq(Sub(i).minimum, JInt(1)))
                        \/ (SHas(Sub(i), "exclusiveMinimum") /\ JEq(Sub(i).exclusiveMinimum, JInt(0))) }
End == /\ IsEvent("endcase")
       /\ (IF EndDiag = "ok" THEN nbad' = nbad
           ELSE /\ nbad' = nbad + 1
                /\ PrintT(<<"BAD", ToJson([l |-> l, case |-> Rec[l].case, prop |-> "C09", diag |-> EndDiag, id |-> cur.id,
                                           known |-> Known(EndDiag),
                                           not_accepted |-> NotAccepted, order_dependent |-> OrderDep,
                                           permissive |-> Permissive, merges |-> merges,
                                           witness |-> IF NotAccepted # {} THEN CandVal((CHOOSE x \in NotAccepted : TRUE)[2])
                                                       ELSE IF OrderDep # {} THEN CandVal(CHOOSE x \in OrderDep : TRUE)
                                                       ELSE [t |-> "na"]])>>))
       /\ UNCHANGED <<nself, cur, acc, merges, stage>>

Next == CaseEv \/ Merge \/ Compile \/ Skip \/ Deser \/ Panic \/ End
Spec == Init /\ [][Next]_vars
Finished ==
    /\ PrintT(<<"TRACE-STATS", ToJson([lines |-> Len(Rec), diameter |-> TLCGet("stats").diameter,
                                      distinct |-> TLCGet("stats").distinct,
                                      generated |-> TLCGet("stats").generated])>>)
    /\ TLCGet("stats").diameter = Len(Rec) + 1
AtEnd == l = Len(Rec) + 1 => PrintT(<<"TRACE-END", ToJson([nbad |-> nbad, nself |-> nself, l |-> l])>>)
=============================================================================
