------------------------------ MODULE Frontends ------------------------------
(***************************************************************************)
(* C15: the three front ends.                                              *)
(*                                                                         *)
(* An option vector o (what a user asks for, front-end independent):       *)
(*   builder : BOOLEAN, derives : Seq(STRING), map : "default" | "btree",  *)
(*   crates : Seq([name, vers, rename, digit : BOOLEAN]),                  *)
(*            (digit: the crate name or its rename contains a digit)       *)
(*   unknown : "default" | "generate" | "allow" | "deny",                  *)
(*   patch, replace, convert : BOOLEAN   (expressible in the macro only)   *)
(* L1 (contract): every front end in whose syntax o is expressible yields  *)
(*   the items of the builder with SettingsOf(o); the CLI file-system      *)
(*   machine (ContractCli below).                                          *)
(* L2 (implementation model): the crate-specifier parsers of the CLI       *)
(*   (cargo-typify/src/lib.rs:96-136) and of the macro      *)
(*   (typify-macro/src/lib.rs:131-165: is_alphanumeric).                   *)
(***************************************************************************)
EXTENDS Sequences, FiniteSets, Integers, TLC

(* settings the builder must be given for option vector o *)
SettingsOf(o) ==
    [builder |-> o.builder, map |-> IF o.map = "btree" THEN "btree" ELSE "hash"]
    @@ (IF Len(o.derives) > 0 THEN [derives |-> o.derives] ELSE << >>)
    @@ (IF Len(o.crates) > 0
        THEN [crates |-> [i \in DOMAIN o.crates |-> [name |-> o.crates[i].name, vers |-> o.crates[i].vers,
                                                     rename |-> o.crates[i].rename]]] ELSE << >>)
    @@ (IF o.unknown # "default" THEN [unknown |-> o.unknown] ELSE << >>)
    @@ (IF o.patch THEN [patch |-> [Col |-> [rename |-> "Colour", derives |-> <<"Eq", "PartialEq">>]]] ELSE << >>)
    @@ (IF o.replace THEN [replace |-> [Other |-> [ty |-> "crate::Repl", impls |-> <<"Display">>]]] ELSE << >>)
    @@ (IF o.convert THEN [convert |-> << [schema |-> [type |-> "number"], ty |-> "crate::Num", impls |-> <<"Display", "FromStr">>] >>]
        ELSE << >>)

ExpressibleInCli(o) == ~o.patch /\ ~o.replace /\ ~o.convert
ExpressibleInMacro(o) == TRUE

(* L2: do the front ends accept the crate specifiers of o? *)
(* cargo-typify/src/lib.rs is_crate: alphanumeric, '-' or '_' (it was is_alphabetic on the
   pinned tree, which rejected names with digits: repaired by fix commit 6afb1e1) *)
CliParserAccepts(o) == TRUE
MacroParserAccepts(o) == TRUE                                                   \* is_alphanumeric
(* contract: every valid crate@version / rename=crate@version is accepted *)
ModelOK_Cli(o) == ExpressibleInCli(o) => CliParserAccepts(o)

(* ---- ContractCli: the file-system machine around the subcommand ---------
   before : set of file names in the directory before the run
   run    : [valid : BOOLEAN (arguments and input are valid), outmode]
   obs    : [exit, after : set of file names, stdout_len, items_equal] *)
ExpectedAfter(before, outmode) ==
    CASE outmode = "default" -> before \cup {"schema.rs"}
      [] outmode = "dash" -> before
      [] outmode = "file" -> before \cup {"out.rs"}
Cli_Diag(valid, outmode, before, obs) ==
    IF valid /\ obs.exit # 0 THEN "C15/CliRejectsValidInvocation"
    ELSE IF ~valid /\ obs.exit = 0 THEN "C15/CliAcceptsInvalidInvocation"
    ELSE IF obs.exit # 0 /\ (obs.after # before \/ obs.stdout_len # 0) THEN "C15/CliWritesOnFailure"
    ELSE IF obs.exit = 0 /\ obs.after # ExpectedAfter(before, outmode) THEN "C15/CliOutputPathWrong"
    ELSE IF obs.exit = 0 /\ (outmode = "dash") # (obs.stdout_len > 0) THEN "C15/CliStdoutWrong"
    ELSE IF obs.exit = 0 /\ ~obs.items_equal THEN "C15/CliItemsDifferFromBuilder"
    ELSE "ok"
Macro_Diag(obs) ==
    IF ~obs.expanded THEN "C15/MacroRejectsValidInvocation"
    ELSE IF ~obs.items_equal THEN "C15/MacroItemsDifferFromBuilder"
    ELSE "ok"
=============================================================================
