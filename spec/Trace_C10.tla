----------------------------- MODULE Trace_C10 -----------------------------
(***************************************************************************)
(* L4: trace validation for C10.  Reads the NDJSON trace recorded from the *)
(* real typify (one "int" event per case: the schema that was given to     *)
(* add_type and the builtin type name that came back) and replays it       *)
(* against the C10 contract (IntSchema).  The trace specification is a     *)
(* monitor: an event the contract does not admit is reported (BAD line)    *)
(* and the run continues, so the rest of the trace is still checked.       *)
(* Known-finding classification uses the implementation model of the       *)
(* pinned tree (IntSelect): a violation is "known" only if that model      *)
(* predicts this very violation for this very schema and the schema has    *)
(* the shape recorded in known_findings.json.                              *)
(***************************************************************************)
EXTENDS IntSelect, Json, IOUtils, TLC

Rec == ndJsonDeserialize(IOEnv.TRACE)

VARIABLES l,      \* next line of the trace
          nbad,   \* events rejected by the contract so far
          nself   \* oracle self-check disagreements so far

vars == <<l, nbad, nself>>

Probes == Points({-2, -1, 0, 1, 2})

(* ---- known-finding predicates (see /verif/known_findings.json) ---------- *)
ModelPredicts(e, d) ==
    LET c == Choose(e.s) IN c.res = e.res /\ (e.res = "ok" => c.ty = e.ty)
                            /\ C10_Diag(e.s, c.res, c.ty, Probes) = d
BoundsOf(S) == DOMAIN S \cap {"min", "max", "emin", "emax"}
LowerOnly(S) == BoundsOf(S) # {} /\ BoundsOf(S) \subseteq {"min", "emin"}
UpperOnly(S) == BoundsOf(S) # {} /\ BoundsOf(S) \subseteq {"max", "emax"}
Known(e, d) ==
    IF ~ModelPredicts(e, d) THEN {}
    ELSE
    {k \in {"C10-one-sided-bound-at-type-limit", "C10-format-range-lost-off-fast-path",
            "C10-default-vs-bounds-with-format", "C10-default-f64-rounding"} :
       CASE k = "C10-one-sided-bound-at-type-limit" ->
              d = "C10/Narrower" /\ ~Recognised(e.s) /\ (LowerOnly(e.s) \/ UpperOnly(e.s))
         [] k = "C10-format-range-lost-off-fast-path" ->
              d = "C10/Narrower" /\ Recognised(e.s)
         [] k = "C10-default-vs-bounds-with-format" ->
              d = "C10/DefaultOutOfRangeAccepted" /\ Recognised(e.s)
         [] k = "C10-default-f64-rounding" ->
              d = "C10/DefaultOutOfRangeAccepted" /\ ~Recognised(e.s)
              /\ (Big(e.s.def) \/ \E b \in BoundsOf(e.s) : Big(e.s[b]))
         [] OTHER -> FALSE }

(* ---- the monitor --------------------------------------------------------- *)
Init == l = 1 /\ nbad = 0 /\ nself = 0

SelfCheck(e) ==
    IF "oracle" \in DOMAIN e
    THEN Cardinality({ i \in DOMAIN e.oracle :
            \/ Admitted(e.s, e.oracle[i].p) # e.oracle[i].adm
            \/ (KnownType(e.ty) /\ InType(e.ty, e.oracle[i].p) # e.oracle[i].fits) })
    ELSE 0

IsEvent(k) == l <= Len(Rec) /\ Rec[l].ev = k /\ l' = l + 1

(* the contract admits the observed outcome *)
Accept ==
    /\ IsEvent("int")
    /\ LET e == Rec[l] IN
         /\ C10_Diag(e.s, e.res, e.ty, Probes) = "ok"
         /\ nself' = nself + SelfCheck(e)
    /\ UNCHANGED nbad

(* it does not: report and go on *)
Reject ==
    /\ IsEvent("int")
    /\ LET e == Rec[l]
           d == C10_Diag(e.s, e.res, e.ty, Probes)
       IN /\ d # "ok"
          /\ PrintT(<<"BAD", ToJson([l |-> l, case |-> e.case, prop |-> "C10", diag |-> d,
                                     known |-> Known(e, d),
                                     wit |-> IF d = "C10/Narrower"
                                             THEN Witnesses(e.s, e.ty, Probes) ELSE {}])>>)
          /\ nself' = nself + SelfCheck(e)
    /\ nbad' = nbad + 1

Next == Accept \/ Reject

Spec == Init /\ [][Next]_vars

(* every line consumed; the counts are printed for the orchestrator *)
Finished ==
    /\ PrintT(<<"TRACE-STATS", ToJson([lines |-> Len(Rec),
                                      diameter |-> TLCGet("stats").diameter,
                                      distinct |-> TLCGet("stats").distinct,
                                      generated |-> TLCGet("stats").generated])>>)
    /\ TLCGet("stats").diameter = Len(Rec) + 1

(* evaluated in every state: when the end is reached report the totals *)
AtEnd == l = Len(Rec) + 1 => PrintT(<<"TRACE-END", ToJson([nbad |-> nbad, nself |-> nself, l |-> l])>>)
=============================================================================
