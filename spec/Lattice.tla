------------------------------ MODULE Lattice ------------------------------
(***************************************************************************)
(* L0 vocabulary: 64-bit (and beyond) integers as lattice points.          *)
(*                                                                         *)
(* TLC integers are 32 bit, the properties about integer selection (C10,   *)
(* C02 boundary instances, C06 integer defaults) talk about i64::MIN-1 ..  *)
(* u64::MAX+1.  An integer is a pair <<anchor, offset>>: the anchors are   *)
(* the limits of the Rust integer types and zero, the offset is a small    *)
(* displacement.  Neighbouring anchors are at least 128 apart, offsets stay*)
(* within -3..3, so the order is exactly the lexicographic order of        *)
(* (rank(anchor), offset).                                                 *)
(***************************************************************************)
EXTENDS Integers, Sequences, FiniteSets

Anchors == << "i64min", "i32min", "i16min", "i8min", "zero", "i8max", "u8max",
              "i16max", "u16max", "i32max", "u32max", "i64max", "u64max" >>

AnchorSet == { Anchors[i] : i \in DOMAIN Anchors }

RankF == [a \in AnchorSet |-> CHOOSE i \in DOMAIN Anchors : Anchors[i] = a]
Rank(a) == RankF[a]

Pt(a, o) == [a |-> a, o |-> o]

Points(offs) == { Pt(a, o) : a \in AnchorSet, o \in offs }

(* total order *)
Lt(p, q) == \/ Rank(p.a) < Rank(q.a)
            \/ Rank(p.a) = Rank(q.a) /\ p.o < q.o
Le(p, q) == Lt(p, q) \/ (p.a = q.a /\ p.o = q.o)
Eq(p, q) == p.a = q.a /\ p.o = q.o
PMax(p, q) == IF Lt(p, q) THEN q ELSE p
PMin(p, q) == IF Lt(p, q) THEN p ELSE q

Zero == Pt("zero", 0)
One  == Pt("zero", 1)

(* parity: every MIN is even, every MAX is odd, zero is even *)
AnchorOdd(a) == a \in {"i8max", "u8max", "i16max", "u16max", "i32max", "u32max",
                       "i64max", "u64max"}
IsEven(p) == LET b == IF AnchorOdd(p.a) THEN 1 ELSE 0 IN (b + p.o) % 2 = 0

(* Rust integer types *)
IntTypes == {"i8", "u8", "i16", "u16", "i32", "u32", "i64", "u64"}
NzTypes  == {"::std::num::NonZeroU8", "::std::num::NonZeroU16",
             "::std::num::NonZeroU32", "::std::num::NonZeroU64"}

TMin(ty) == CASE ty = "i8"  -> Pt("i8min", 0)
              [] ty = "i16" -> Pt("i16min", 0)
              [] ty = "i32" -> Pt("i32min", 0)
              [] ty = "i64" -> Pt("i64min", 0)
              [] ty \in {"u8", "u16", "u32", "u64"} -> Zero
              [] ty \in NzTypes -> One
TMax(ty) == CASE ty = "i8"  -> Pt("i8max", 0)
              [] ty = "i16" -> Pt("i16max", 0)
              [] ty = "i32" -> Pt("i32max", 0)
              [] ty = "i64" -> Pt("i64max", 0)
              [] ty = "u8"  -> Pt("u8max", 0)
              [] ty = "u16" -> Pt("u16max", 0)
              [] ty = "u32" -> Pt("u32max", 0)
              [] ty = "u64" -> Pt("u64max", 0)
              [] ty = "::std::num::NonZeroU8"  -> Pt("u8max", 0)
              [] ty = "::std::num::NonZeroU16" -> Pt("u16max", 0)
              [] ty = "::std::num::NonZeroU32" -> Pt("u32max", 0)
              [] ty = "::std::num::NonZeroU64" -> Pt("u64max", 0)

KnownType(ty) == ty \in IntTypes \cup NzTypes

(* n is representable in the Rust type ty *)
InType(ty, n) == Le(TMin(ty), n) /\ Le(n, TMax(ty))

IsNonZero(ty) == ty \in NzTypes

(***************************************************************************)
(* f64 rounding, as the implementation suffers it (every bound, and every  *)
(* type limit, passes through an f64).  Below 2^53 integers are exact.     *)
(* Near 2^63 and 2^64 the spacing of doubles is >= 1024, so a point        *)
(* <<i64max,o>>, |o|<=3, rounds to 2^63 = <<i64max,1>>; <<u64max,o>> to    *)
(* 2^64 = <<u64max,1>>; <<i64min,o>> to -2^63 = <<i64min,0>>.              *)
(***************************************************************************)
Big(p) == p.a \in {"i64min", "i64max", "u64max"}
F64(p) == CASE p.a = "i64min" -> Pt("i64min", 0)
            [] p.a = "i64max" -> Pt("i64max", 1)
            [] p.a = "u64max" -> Pt("u64max", 1)
            [] OTHER -> p
(* x + 1.0 and x - 1.0 on doubles: absorbed for the big anchors *)
FAdd1(p) == IF Big(p) THEN p ELSE Pt(p.a, p.o + 1)
FSub1(p) == IF Big(p) THEN p ELSE Pt(p.a, p.o - 1)
=============================================================================
