----------------------------- MODULE FamiliesG -----------------------------
(***************************************************************************)
(* L3 data: documents outside the faithful universe that stress            *)
(* generation itself (C01, C17, C19): colliding and keyword names,         *)
(* defaults of every kind, nullable named definitions, deny lists, const,  *)
(* multi-type schemas, pattern properties, non-exclusive anyOf, merged     *)
(* allOf.  `supported` marks documents inside the supported fragment       *)
(* (what schemars emits / what the README documents): those must not be    *)
(* rejected (C01b).                                                        *)
(***************************************************************************)
EXTENDS Families

GDoc(fam, id, defs) == [fam |-> fam, id |-> id, defs |-> defs]
WithDefault(s, d) == With(s, "default", d)

G1 == << GDoc("G1", "dup-field", ("T" :> SObj(Props2("foo-bar", SInt, "foo_bar", SInt), {}))),
         GDoc("G1", "keywords", ("T" :> SObj(Props3("type", SInt, "fn", SStr, "self", SBool) @@ Props2("crate", SInt, "Self", SInt), {"type"}))),
         GDoc("G1", "case-pair", ("T" :> SObj(Props2("a", SInt, "A", SInt), {}))),
         GDoc("G1", "digit-start", ("T" :> SObj(Props2("1x", SInt, "2", SInt), {}))),
         GDoc("G1", "symbols", ("T" :> SObj(Props2("$ref", SInt, "a b", SStr), {}))),
         GDoc("G1", "enum-case-pair", ("T" :> EnumS(<<JS(<<"a">>), JS(<<"A">>)>>))),
         GDoc("G1", "enum-symbols", ("T" :> EnumS(<<JS(<<"+">>), JS(<<"-">>), JS(<<"a","+">>)>>))),
         GDoc("G1", "enum-keywords", ("T" :> EnumS(<<JS(<<"t","y","p","e">>), JS(<<"S","e","l","f">>), JS(<<"f","n">>)>>))),
         GDoc("G1", "def-names", ("T" :> SObj(Props2("a", SRef("my type"), "b", SRef("lower")), {}))
                                  @@ ("my type" :> SObj(Props1("q", SInt), {})) @@ ("lower" :> SStr)),
         GDoc("G1", "def-keyword", ("T" :> SObj(Props1("a", SRef("type")), {})) @@ ("type" :> SObj(Props1("q", SInt), {}))),
         GDoc("G1", "def-collide", ("T" :> SObj(Props2("a", SRef("foo-bar"), "b", SRef("FooBar")), {}))
                                    @@ ("foo-bar" :> SObj(Props1("q", SInt), {})) @@ ("FooBar" :> SObj(Props1("r", SStr), {}))) >>

DProp(s, d) == WithDefault(s, d)
G2 == << GDoc("G2", "scalars", ("T" :> SObj(Props3("i", DProp(SInt, JInt(5)), "s", DProp(SStr, JS(<<"x">>)), "b", DProp(SBool, JBool(TRUE)))
                                             @@ Props2("n", DProp(SNum, JHalf(3)), "z", DProp(SInt, JInt(0))), {}))),
         GDoc("G2", "containers", ("T" :> SObj(Props3("v", DProp(SArr(SInt), JArr(<<JInt(1), JInt(2)>>)),
                                                      "m", DProp(SMap(SInt), JObj1("k", JInt(1))),
                                                      "e", DProp(SArr(SStr), JArr(<< >>))), {}))),
         GDoc("G2", "one-tuple", ("T" :> SObj(Props1("t", DProp(STuple(<<SStr>>), JArr(<<JS(<<"a">>)>>))), {}))),
         GDoc("G2", "tuple2", ("T" :> SObj(Props1("t", DProp(STuple(<<SInt, SStr>>), JArr(<<JInt(1), JS(<<"a">>)>>))), {}))),
         GDoc("G2", "nested-struct", ("T" :> SObj(Props1("in", DProp(SRef("N"), JObj1("q", JInt(7)))), {}))
                                      @@ ("N" :> SObj(Props2("q", SInt, "r", SStr), {"q"}))),
         GDoc("G2", "enum-default", ("T" :> SObj(Props1("c", DProp(SRef("C"), JS(<<"g">>))), {}))
                                     @@ ("C" :> EnumS(<<JS(<<"r">>), JS(<<"g">>)>>))),
         GDoc("G2", "inline-struct-default", ("T" :> SObj(Props1("in", DProp(SObj(Props2("flag", DProp(SBool, JBool(TRUE)), "n", DProp(SInt, JInt(5))), {}),
                                                                                 JObj1("flag", JBool(FALSE)))), {}))),
         GDoc("G2", "type-default", ("T" :> WithDefault(SObj(Props1("q", SInt), {"q"}), JObj1("q", JInt(3))))),
         GDoc("G2", "newtype-default", ("T" :> SObj(Props1("s", DProp(SRef("S"), JS(<<"a","b">>))), {}))
                                        @@ ("S" :> [type |-> "string", minLength |-> 1])),
         GDoc("G2", "option-default", ("T" :> SObj(Props1("o", DProp(SNullable(SInt), JInt(4))), {}))),
         GDoc("G2", "uuid-default", ("T" :> SObj(Props1("u", DProp([type |-> "string", format |-> "uuid"], Sample("uuid")[1])), {}))),
         GDoc("G2", "flatten-default", ("T" :> SObj(Props1("in", DProp(SRef("N"), JObj2("q", JInt(1), "zz", JInt(2)))), {}))
                                        @@ ("N" :> With(SObj(Props1("q", SInt), {"q"}), "additionalProperties", SInt))),
         GDoc("G2", "bad-string-default", ("T" :> SObj(Props1("s", DProp(SStr, JInt(5))), {}))),
         GDoc("G2", "unit-default", ("T" :> SObj(Props1("n", DProp(SNull, JNull)), {}))),
         GDoc("G2", "u8-default", ("T" :> SObj(Props1("u", DProp([type |-> "integer", format |-> "uint8"], JInt(7))), {}))),
         GDoc("G2", "nonzero-default", ("T" :> SObj(Props1("u", DProp([type |-> "integer", format |-> "uint32", minimum |-> JInt(1)], JInt(7))), {}))) >>

G3 == << GDoc("G3", "nullable-def-inner", ("T" :> SObj(Props1("f", SRef("Foo")), {}))
                                           @@ ("Foo" :> [types |-> <<"object", "null">>, properties |-> Props1("x", SInt)])
                                           @@ ("FooInner" :> SObj(Props1("y", SInt), {}))),
         GDoc("G3", "nullable-def", ("T" :> SObj(Props1("f", SRef("Foo")), {}))
                                     @@ ("Foo" :> [types |-> <<"object", "null">>, properties |-> Props1("x", SInt)])),
         (* a named definition that is oneOf[X, null] / anyOf[X, null] with X an inline schema needing a name *)
         GDoc("G3", "nullable-def-oneof-enum", ("T" :> SObj(Props1("f", SRef("Foo")), {}))
                                     @@ ("Foo" :> SNullable([type |-> "integer", enum |-> <<JInt(1), JInt(2)>>]))),
         GDoc("G3", "nullable-def-oneof-obj", ("T" :> SObj(Props1("f", SRef("Foo")), {}))
                                     @@ ("Foo" :> SNullable(SObj(Props1("x", SInt), {"x"})))),
         GDoc("G3", "nullable-def-anyof-newtype", ("T" :> SObj(Props1("f", SRef("Foo")), {}))
                                     @@ ("Foo" :> SAnyOf(<< [type |-> "string", minLength |-> 1], SNull >>))),
         GDoc("G3", "nullable-def-oneof-ref", ("T" :> SObj(Props1("f", SRef("Foo")), {}))
                                     @@ ("Foo" :> SNullable(SRef("Bar"))) @@ ("Bar" :> SObj(Props1("x", SInt), {"x"}))),
         GDoc("G3", "same-title-twice", ("T" :> SObj(Props2("x", Titled(SObj(Props1("p", SInt), {}), "Same"),
                                                            "y", Titled(SObj(Props1("q", SStr), {}), "Same")), {}))),
         GDoc("G3", "inline-enum-in-variant", ("T" :> SOneOf(<< ExtVar("A", SObj(Props1("in", SObj(Props1("z", SInt), {})), {})),
                                                                 ExtVar("B", SInt) >>))) >>

G5 == << GDoc("G5", "deny-list", ("T" :> [type |-> "string", not |-> [enum |-> <<JS(<<"a">>), JS(<<"b">>)>>]])),
         GDoc("G5", "deny-list-untyped", ("T" :> [not |-> [enum |-> <<JS(<<"a">>), JInt(1)>>]])),
         (* deny lists over non-string values, typed inside and outside the `not` *)
         GDoc("G5", "deny-list-int-inner", ("T" :> [not |-> [type |-> "integer", enum |-> <<JInt(0)>>]])),
         GDoc("G5", "deny-list-num", ("T" :> [not |-> [enum |-> <<JHalf(3)>>]])),
         GDoc("G5", "deny-list-int-outer", ("T" :> [type |-> "integer", not |-> [enum |-> <<JInt(0), JInt(1)>>]])),
         GDoc("G5", "deny-list-in-struct", ("T" :> SObj(Props2("retries", [not |-> [type |-> "integer", enum |-> <<JInt(0)>>]],
                                                                "label", [type |-> "string", not |-> [enum |-> <<JS(<<"x">>)>>]]), {}))),
         (* a fixed-length array with fewer item schemas than its length and no additionalItems *)
         GDoc("G5", "tuple-short", ("T" :> [type |-> "array", itemsList |-> <<SStr>>, minItems |-> 2, maxItems |-> 2])),
         GDoc("G5", "tuple-short-in-struct", ("T" :> SObj(Props1("t", [type |-> "array", itemsList |-> <<SInt>>, minItems |-> 3, maxItems |-> 3]), {}))),
         GDoc("G5", "const", ("T" :> SObj(Props1("k", [type |-> "string", const |-> JS(<<"v">>)]), {"k"}))),
         GDoc("G5", "multi-type", ("T" :> [types |-> <<"integer", "string">>])),
         GDoc("G5", "multi-type3", ("T" :> [types |-> <<"boolean", "object", "array">>])),
         GDoc("G5", "pattern-props", ("T" :> [type |-> "object", patternProperties |-> ("^a" :> SInt)])),
         GDoc("G5", "property-names", ("T" :> [type |-> "object", propertyNames |-> [type |-> "string", pattern |-> "^a+$"],
                                               additionalProperties |-> SInt])),
         GDoc("G5", "anyof-overlap", ("T" :> SAnyOf(<< SObj(Props1("a", SInt), {}), SObj(Props1("b", SStr), {}) >>))),
         GDoc("G5", "allof-merge-conflict", ("T" :> SAllOf(<< SObj(Props1("a", SInt), {"a"}), SObj(Props1("a", SStr), {}) >>))),
         GDoc("G5", "not-object", ("T" :> [not |-> [type |-> "object"]])),
         GDoc("G5", "empty-enum-after-filter", ("T" :> [type |-> "string", enum |-> <<JS(<<"a","b","c">>)>>, maxLength |-> 1])),
         GDoc("G5", "false-schema", ("T" :> SObj(Props1("never", SFalse), {}))),
         GDoc("G5", "float-key-map", ("T" :> SObj(Props2("f", SNum, "m", SMap(SNum)), {"f"}))),
         GDoc("G5", "set-of-floats", ("T" :> SSet(SNum))),
         GDoc("G5", "set-of-objects", ("T" :> SSet(SObj(Props1("q", SInt), {})))) >>

(* recursion through tuples, fixed arrays and maps (no instances are generated for these) *)
G6 == << GDoc("G6", "self-tuple", ("T" :> SObj(Props2("v", SInt, "t", STuple(<<SStr, SRef("T")>>)), {"v"}))),
         GDoc("G6", "self-tuple-nullable", ("T" :> SObj(Props2("v", SInt, "t", SNullable(STuple(<<SRef("T"), SInt>>))), {"v", "t"}))),
         GDoc("G6", "mutual-tuple", ("T" :> SOneOf(<<SInt, SRef("U")>>)) @@ ("U" :> STuple(<<SRef("T"), SRef("T")>>))),
         GDoc("G6", "self-fixed-array", ("T" :> SObj(Props1("a", SFixed(SRef("T"), 2)), {}))),
         GDoc("G6", "self-enum-variant", ("T" :> SOneOf(<< ExtVar("Leaf", SInt), ExtVar("Node", STuple(<<SRef("T"), SRef("T")>>)) >>))) >>

(* G7: a conversion schema ({type: string, format: "path"}) used as an untagged alternative, as an
   aliased definition, as a property and as an item: run under conversion settings whose target
   type declares every subset of {FromStr, Display} *)
PathS == [type |-> "string", format |-> "path"]
G7 == << GDoc("G7", "conv-untagged", ("T" :> SOneOf(<< PathS, SInt >>))),
         GDoc("G7", "conv-untagged-two", ("T" :> SOneOf(<< PathS, [type |-> "string", format |-> "uuid"] >>))),
         GDoc("G7", "conv-alias", ("T" :> SObj(Props1("p", SRef("P")), {})) @@ ("P" :> PathS)),
         GDoc("G7", "conv-nested-untagged", ("T" :> SObj(Props1("u", SRef("U")), {})) @@ ("U" :> SOneOf(<< SRef("P"), SBool >>)) @@ ("P" :> PathS)),
         GDoc("G7", "conv-prop-item", ("T" :> SObj(Props2("p", PathS, "v", SArr(PathS)), {"p"}))) >>

(* G8: wide documents (many members / many definitions): hash-ordered collections get several elements *)
Wide == SObj(Props3("alpha", SInt, "beta", SStr, "gamma", SBool) @@ Props3("delta", SNum, "epsilon", SArr(SInt), "zeta", SMap(SStr))
             @@ Props3("eta", SRef("D1"), "theta", SRef("D2"), "iota", SRef("D3")), {"alpha", "eta"})
G8 == << GDoc("G8", "wide", ("T" :> Wide) @@ ("D1" :> SObj(Props1("q", SInt), {})) @@ ("D2" :> EnumS(<<JS(<<"r">>), JS(<<"g">>), JS(<<"b">>)>>))
                             @@ ("D3" :> SOneOf(<<SInt, SStr, SBool>>))),
         GDoc("G8", "many-variants", ("T" :> EnumS(<<JS(<<"a">>), JS(<<"b">>), JS(<<"c">>), JS(<<"d">>), JS(<<"e">>), JS(<<"f">>), JS(<<"g">>)>>))),
         GDoc("G8", "anyof-many", ("T" :> SAnyOf(<< SObj(Props1("a", SInt), {}), SObj(Props1("b", SStr), {}), SObj(Props1("c", SBool), {}),
                                                    SObj(Props1("d", SNum), {}) >>))) >>

(* G9: maps in property position - key kind x value kind x required/optional, plus the same map
   as an array item and as a definition behind a reference *)
KeyPat == [type |-> "string", pattern |-> "^a+$"]
MapOf(kk, vk) ==
    LET v == CASE vk = "any" -> STrue [] vk = "int" -> SInt [] vk = "obj" -> SRef("N") IN
    CASE kk = "plain"   -> [type |-> "object", additionalProperties |-> v]
      [] kk = "names"   -> [type |-> "object", propertyNames |-> KeyPat, additionalProperties |-> v]
      [] kk = "namesonly" -> [type |-> "object", propertyNames |-> KeyPat]
      [] kk = "pattern" -> [type |-> "object", patternProperties |-> ("^a" :> v)]
MapCombos == SetToSeq({"plain", "names", "namesonly", "pattern"} \X {"any", "int", "obj"})
G9 == [k \in DOMAIN MapCombos |->
         GDoc("G9", "map-" \o MapCombos[k][1] \o "-" \o MapCombos[k][2],
              ("T" :> SObj(Props3("req", MapOf(MapCombos[k][1], MapCombos[k][2]),
                                  "opt", MapOf(MapCombos[k][1], MapCombos[k][2]),
                                  "items", SArr(MapOf(MapCombos[k][1], MapCombos[k][2])))
                           @@ Props1("viaref", SRef("M")), {"req"}))
              @@ ("M" :> MapOf(MapCombos[k][1], MapCombos[k][2])) @@ ("N" :> SObj(Props1("q", SInt), {"q"})))]

GUniverse == G1 \o G2 \o G3 \o G5 \o G6 \o G7 \o G8 \o G9

(* documents that are inside the supported fragment *)
SupportedIds == { <<"G2", "scalars">>, <<"G2", "containers">>, <<"G2", "tuple2">>, <<"G2", "nested-struct">>,
                  <<"G2", "enum-default">>, <<"G2", "option-default">>, <<"G2", "u8-default">>,
                  <<"G3", "nullable-def">>, <<"G1", "keywords">>, <<"G5", "deny-list">>, <<"G5", "multi-type">>,
                  <<"G5", "const">>, <<"G5", "float-key-map">> }
SupportedFams == {"F1", "F2", "F4", "F5", "F6", "F7", "F8", "F9", "F11"}
Supported(d) == d.fam \in SupportedFams \/ <<d.fam, d.id>> \in SupportedIds
=============================================================================
