----------------------------- MODULE SchemaGen -----------------------------
(***************************************************************************)
(* L3: a generator state machine for schema documents of the faithful      *)
(* fragment.  Documents are built bottom-up: the state holds a pool of     *)
(* schemas built so far; actions add a leaf or combine pool elements into  *)
(* an object / array / set / tuple / map / nullable / tagged or untagged   *)
(* oneOf / exclusive anyOf / allOf of objects, or move an element into a   *)
(* named definition and refer to it.  Finish makes the last element the    *)
(* definition T under test.  Explored breadth-first for small bounds and   *)
(* by `tlc -simulate` (seeded) for deep random documents.                  *)
(*                                                                         *)
(* The generator stays clear of the shapes recorded in known_findings.json *)
(* (one-sided integer bounds, mixed open/closed variants, open             *)
(* single-property oneOf branches, anyOf of string enums, recursion): those *)
(* are exercised, and identified, by the fixed families.                   *)
(***************************************************************************)
EXTENDS Instances

CONSTANTS MaxPool, MaxSteps

VARIABLES pool, defs, steps, done
gvars == <<pool, defs, steps, done>>

JS0(cs) == JStr(cs)
Leaves == <<
  SInt, SStr, SBool, SNum, SNull,
  [type |-> "integer", format |-> "uint8"], [type |-> "integer", format |-> "int32"],
  [type |-> "integer", minimum |-> JInt(0), maximum |-> JInt(255)],
  [type |-> "string", minLength |-> 1, maxLength |-> 2], [type |-> "string", pattern |-> "^a+$"],
  [type |-> "string", format |-> "uuid"], [type |-> "string", format |-> "date"],
  [type |-> "string", enum |-> <<JS0(<<"r">>), JS0(<<"g", "o">>)>>],
  [type |-> "string", enum |-> <<JS0(<<"s">>), JS0(<<"L">>)>>],
  [type |-> "integer", enum |-> <<JInt(1), JInt(2)>>],
  [types |-> <<"string", "null">>] >>

Class(S) == IF SHas(S, "ref") THEN "ref"
            ELSE IF SHas(S, "type") THEN (IF S.type \in {"integer", "number"} THEN "number" ELSE S.type)
            ELSE IF SHas(S, "types") THEN "mixed"
            ELSE IF SHas(S, "properties") THEN "object"
            ELSE "mixed"
IsObject(S) == SHas(S, "type") /\ S.type = "object" /\ SHas(S, "properties")
PropNames(S) == IF SHas(S, "properties") THEN DOMAIN S.properties ELSE {}

Init == pool = << >> /\ defs = << >> /\ steps = 0 /\ done = FALSE

Push(S) == /\ ~done /\ steps < MaxSteps /\ Len(pool) < MaxPool
           /\ pool' = Append(pool, S) /\ steps' = steps + 1 /\ UNCHANGED <<defs, done>>
AddLeaf == \E i \in DOMAIN Leaves : Push(Leaves[i])
Idx == DOMAIN pool
MkObj == \E i \in Idx, j \in Idx, req \in SUBSET {"a", "b"}, closed \in BOOLEAN :
           Push(IF closed THEN SObjClosed(Props2("a", pool[i], "b", pool[j]), req)
                ELSE SObj(Props2("a", pool[i], "b", pool[j]), req))
MkObj1 == \E i \in Idx, req \in BOOLEAN : Push(SObj(Props1("c", pool[i]), IF req THEN {"c"} ELSE {}))
MkArr == \E i \in Idx : Push(SArr(pool[i]))
MkSet == \E i \in Idx : Class(pool[i]) \in {"string", "number"} /\ Push(SSet(pool[i]))
MkTuple == \E i \in Idx, j \in Idx : Push(STuple(<<pool[i], pool[j]>>))
MkMap == \E i \in Idx : Push(SMap(pool[i]))
MkNullable == \E i \in Idx : Class(pool[i]) \notin {"null", "mixed"} /\ ~SHas(pool[i], "oneOf") /\ Push(SNullable(pool[i]))
(* (a null-typed payload makes the variant a unit variant that serialises as a string: recorded
   finding C03-null-payload-variant-serialises-as-string, exercised by F9 ext-tuple) *)
MkExt == \E i \in Idx, j \in Idx :
           /\ Class(pool[i]) # "null" /\ Class(pool[j]) # "null"
           /\ Push(SOneOf(<< [type |-> "string", enum |-> <<JS0(<<"U">>)>>],
                          SObjClosed(Props1("V", pool[i]), {"V"}), SObjClosed(Props1("W", pool[j]), {"W"}) >>))
MkInt == \E i \in Idx, j \in Idx, closed \in BOOLEAN :
           /\ IsObject(pool[i]) /\ IsObject(pool[j]) /\ "kind" \notin PropNames(pool[i]) \cup PropNames(pool[j])
           /\ ~SHas(pool[i], "additionalProperties") /\ ~SHas(pool[j], "additionalProperties")
           /\ LET v(S, tagv) == LET base == SObj(S.properties @@ ("kind" :> [type |-> "string", enum |-> <<JS0(tagv)>>]),
                                                 ReqSet(S) \cup {"kind"})
                                IN IF closed THEN With(base, "additionalProperties", SFalse) ELSE base
              IN Push(SOneOf(<< v(pool[i], <<"x">>), v(pool[j], <<"y">>) >>))
MkUntagged == \E i \in Idx, j \in Idx :
           /\ Class(pool[i]) # Class(pool[j]) /\ Class(pool[i]) \notin {"mixed", "ref", "null"}
           /\ Class(pool[j]) \notin {"mixed", "ref", "null"}
           /\ (IsObject(pool[i]) => Cardinality(PropNames(pool[i])) # 1 \/ SHas(pool[i], "additionalProperties"))
           /\ (IsObject(pool[j]) => Cardinality(PropNames(pool[j])) # 1 \/ SHas(pool[j], "additionalProperties"))
           /\ Push(SOneOf(<< pool[i], pool[j] >>))
MkAllOf == \E i \in Idx, j \in Idx :
           /\ IsObject(pool[i]) /\ IsObject(pool[j]) /\ PropNames(pool[i]) \cap PropNames(pool[j]) = {}
           /\ ~SHas(pool[i], "additionalProperties") /\ ~SHas(pool[j], "additionalProperties")
           /\ Push(SAllOf(<< pool[i], pool[j] >>))
DefName(n) == CASE n = 0 -> "D1" [] n = 1 -> "D2" [] n = 2 -> "D3"
MkRef == \E i \in Idx :
           /\ ~done /\ steps < MaxSteps /\ Cardinality(DOMAIN defs) < 3 /\ Class(pool[i]) # "ref"
           /\ LET n == DefName(Cardinality(DOMAIN defs)) IN
                /\ defs' = (n :> pool[i]) @@ defs
                /\ pool' = [pool EXCEPT ![i] = SRef(n)]
           /\ steps' = steps + 1 /\ UNCHANGED done
Finish == /\ ~done /\ Len(pool) > 0 /\ done' = TRUE /\ UNCHANGED <<pool, defs, steps>>

GenNext == AddLeaf \/ MkObj \/ MkObj1 \/ MkArr \/ MkSet \/ MkTuple \/ MkMap \/ MkNullable \/ MkExt \/ MkInt
           \/ MkUntagged \/ MkAllOf \/ MkRef \/ Finish
GenSpec == Init /\ [][GenNext]_gvars

(* the definition under test holds every schema that was built *)
PName(i) == CASE i = 1 -> "p1" [] i = 2 -> "p2" [] i = 3 -> "p3" [] i = 4 -> "p4" [] i = 5 -> "p5" [] i = 6 -> "p6"
RootT == IF Len(pool) = 1 THEN pool[1]
         ELSE SObj([n \in { PName(i) : i \in DOMAIN pool } |-> pool[CHOOSE i \in DOMAIN pool : PName(i) = n]], {"p1"})
AllDefs == ("T" :> RootT) @@ defs
=============================================================================
