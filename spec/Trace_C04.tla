----------------------------- MODULE Trace_C04 -----------------------------
(***************************************************************************)
(* L4 / L1: C04 - Rust -> schemars -> typify is wire compatible.            *)
(* Events: "type" (origin type, ingestion route, whether typify generated a *)
(* compiling type for its schema) followed by one "exchange" per sample     *)
(* value x of the origin type: accepted = T' read to_value(x); back_equal = *)
(* T read what T' wrote and the value equals x.                             *)
(* Contract: every type of the universe is generated; every exchange is     *)
(* accepted and comes back equal; the two ingestion routes agree.           *)
(***************************************************************************)
EXTENDS Sequences, FiniteSets, Integers, TLC, Json, IOUtils

Rec == ndJsonDeserialize(IOEnv.TRACE)
VARIABLES l, nbad, nself, cur, vecs
vars == <<l, nbad, nself, cur, vecs>>
Init == l = 1 /\ nbad = 0 /\ nself = 0 /\ cur = << >> /\ vecs = << >>
IsEvent(k) == l <= Len(Rec) /\ Rec[l].ev = k /\ l' = l + 1

(* known finding: a ROOT-level enum (named by its title only) whose conversion has to derive a
   name for an inline type - a struct variant, or a single-variant enum under internal / adjacent
   tagging - panics at add time (no name for the inline type: type_entry.rs:284/365); the same
   schema as a definition converts *)
RootEnumNeedsInnerName(t) ==
    /\ t.kind = "enum"
    /\ \/ \E i \in DOMAIN t.vkinds : t.vkinds[i] = "struct"
       \/ Len(t.vkinds) = 1 /\ t.tagging \in {"internal", "adjacent"}
(* (an untagged enum { Unit, Struct{..} }, emitted by schemars as anyOf[null, object], used to render
   its name twice as a named definition: repaired by baac2f0, no longer excused) *)
(* untagged enums with two variants that admit a common JSON value: schemars emits an anyOf whose
   branches overlap, typify (rightly) cannot prove them exclusive and falls back to the struct of
   flattened optional members, which reads no scalar, null or array.  The overlapping pairs of the
   RustUniverse: String / Option<String> (any string), Vec<i64> / (i64,) ([n]), unit / Option<String>
   (null; with two variants only this is the Option shortcut and works). *)
VTys == { cur.vtys[i] : i \in DOMAIN cur.vtys }
UntaggedRejected(d) == d = "C04/SerializationOfOriginValueRejected" /\ cur.kind = "enum" /\ cur.tagging = "untagged"
Known(e, d) == { k \in {"C04-root-enum-without-name-for-inline-type", "C04-untagged-overlapping-string-variants",
                          "C04-untagged-overlapping-array-variants", "C04-untagged-overlapping-null-variants"} :
                   CASE k = "C04-root-enum-without-name-for-inline-type" ->
                          d = "C04/NotGenerated" /\ e.route = "root" /\ RootEnumNeedsInnerName(e)
                     [] k = "C04-untagged-overlapping-string-variants" ->
                          (* reported at the exchange events of such a type: cur is the type event *)
                          UntaggedRejected(d) /\ {"Option<String>", "String"} \subseteq VTys
                     [] k = "C04-untagged-overlapping-array-variants" ->
                          UntaggedRejected(d) /\ {"Vec<i64>", "(i64,)"} \subseteq VTys
                     [] k = "C04-untagged-overlapping-null-variants" ->
                          UntaggedRejected(d) /\ {"Option<String>", ""} \subseteq VTys /\ Len(cur.vtys) >= 3 }
Bad(e, d) == PrintT(<<"BAD", ToJson([l |-> l, case |-> e.case, prop |-> "C04", diag |-> d, route |-> e.route,
                                     known |-> Known(e, d), ev |-> e])>>)

TypeEv == /\ IsEvent("type")
          /\ LET e == Rec[l] IN
               /\ cur' = e
               /\ (IF e.generated THEN nbad' = nbad ELSE nbad' = nbad + 1 /\ Bad(e, "C04/NotGenerated"))
          /\ UNCHANGED <<nself, vecs>>

Diag(e) == IF ~cur.generated THEN "ok"        \* reported once at the type event
           ELSE IF ~e.accepted THEN "C04/SerializationOfOriginValueRejected"
           ELSE IF ~e.back_ok THEN "C04/OriginCannotReadGeneratedOutput"
           ELSE IF ~e.back_equal THEN "C04/ValueChangedInExchange"
           ELSE "ok"
(* route agreement: the verdict of (case, cand) under route "defs" must equal that under "root" *)
Key(e) == <<e.case, e.cand>>
Verdict(e) == <<e.accepted, e.back_ok, e.back_equal>>
RouteDiag(e) == IF e.route = "defs" /\ cur.generated /\ Key(e) \in DOMAIN vecs /\ vecs[Key(e)] # Verdict(e)
                THEN "C04/IngestionRoutesDisagree" ELSE "ok"
Exchange == /\ IsEvent("exchange")
            /\ LET e == Rec[l] d == Diag(e) r == RouteDiag(e) IN
                 /\ (d # "ok" => Bad(e, d))
                 /\ (r # "ok" => Bad(e, r))
                 /\ nbad' = nbad + (IF d # "ok" THEN 1 ELSE 0) + (IF r # "ok" THEN 1 ELSE 0)
                 /\ vecs' = IF e.route = "root" /\ cur.generated THEN (Key(e) :> Verdict(e)) @@ vecs ELSE vecs
            /\ UNCHANGED <<nself, cur>>
Next == TypeEv \/ Exchange
Spec == Init /\ [][Next]_vars
Finished ==
    /\ PrintT(<<"TRACE-STATS", ToJson([lines |-> Len(Rec), diameter |-> TLCGet("stats").diameter,
                                      distinct |-> TLCGet("stats").distinct,
                                      generated |-> TLCGet("stats").generated])>>)
    /\ TLCGet("stats").diameter = Len(Rec) + 1
AtEnd == l = Len(Rec) + 1 => PrintT(<<"TRACE-END", ToJson([nbad |-> nbad, nself |-> nself, l |-> l])>>)
=============================================================================
