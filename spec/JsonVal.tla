------------------------------ MODULE JsonVal ------------------------------
(***************************************************************************)
(* L0 vocabulary: JSON values in tagged form.                              *)
(*   [t |-> "null"]                      [t |-> "bool", v |-> BOOLEAN]     *)
(*   [t |-> "int", v |-> Int]  (|v| < 10^9)                                 *)
(*   [t |-> "big", p |-> lattice point]  (integers near a type limit)      *)
(*   [t |-> "num", h |-> Int]  (h odd: the number h/2)                     *)
(*   [t |-> "str", c |-> Seq(char token)]                                  *)
(*   [t |-> "arr", v |-> Seq(value)]                                       *)
(*   [t |-> "obj", k |-> Seq(STRING) (sorted), v |-> Seq(value)]           *)
(*   [t |-> "other", text |-> STRING]   (a number outside the vocabulary)  *)
(*   [t |-> "na"]                        (no value)                        *)
(* TLC cannot compare values of different types, so every operator looks   *)
(* at the tag first.                                                       *)
(***************************************************************************)
EXTENDS Lattice

JNull == [t |-> "null"]
JBool(b) == [t |-> "bool", v |-> b]
JInt(i) == [t |-> "int", v |-> i]
JBig(p) == [t |-> "big", p |-> p]
JHalf(h) == [t |-> "num", h |-> h]
JStr(cs) == [t |-> "str", c |-> cs]
JArr(vs) == [t |-> "arr", v |-> vs]
JObj(ks, vs) == [t |-> "obj", k |-> ks, v |-> vs]
JObj1(k1, v1) == JObj(<<k1>>, <<v1>>)
JObj2(k1, v1, k2, v2) == JObj(<<k1, k2>>, <<v1, v2>>)     \* keys must be given sorted
JObj3(k1, v1, k2, v2, k3, v3) == JObj(<<k1, k2, k3>>, <<v1, v2, v3>>)
JEmptyObj == JObj(<< >>, << >>)
JNa == [t |-> "na"]

IsNumber(v) == v.t \in {"int", "big", "num"}
IsInteger(v) == v.t \in {"int", "big"}

(* an integer value as a lattice point, when it is near an anchor; small
   ints are points around zero only when |v| <= 3 *)
SmallAnchorPt(i) ==
    CASE i \in -3 .. 3 -> Pt("zero", i)
      [] i \in 124 .. 130 -> Pt("i8max", i - 127)
      [] i \in -131 .. -125 -> Pt("i8min", i + 128)
      [] i \in 252 .. 258 -> Pt("u8max", i - 255)
      [] i \in 32764 .. 32770 -> Pt("i16max", i - 32767)
      [] i \in -32771 .. -32765 -> Pt("i16min", i + 32768)
      [] i \in 65532 .. 65538 -> Pt("u16max", i - 65535)
      [] OTHER -> Pt("none", 0)

(* order position of a small integer relative to the anchors: every int
   with |v| < 10^9 lies strictly between i32min and i32max *)
IntRankLo(i) ==   \* greatest anchor rank whose value is <= i
    IF i >= 65535 THEN Rank("u16max") ELSE IF i >= 32767 THEN Rank("i16max")
    ELSE IF i >= 255 THEN Rank("u8max") ELSE IF i >= 127 THEN Rank("i8max")
    ELSE IF i >= 0 THEN Rank("zero") ELSE IF i >= -128 THEN Rank("i8min")
    ELSE IF i >= -32768 THEN Rank("i16min") ELSE Rank("i32min")
AnchorVal(a) == CASE a = "zero" -> 0 [] a = "i8max" -> 127 [] a = "u8max" -> 255
                  [] a = "i16max" -> 32767 [] a = "u16max" -> 65535
                  [] a = "i8min" -> -128 [] a = "i16min" -> -32768
                  [] OTHER -> 0
SmallAnchor(a) == a \in {"zero", "i8max", "u8max", "i16max", "u16max", "i8min", "i16min"}

(* compare integer values (int or big) : -1, 0, 1 *)
PtOfInt(i) == LET r == IntRankLo(i) a == Anchors[r]
              IN IF SmallAnchor(a) THEN [r |-> r, d |-> i - AnchorVal(a)]
                 ELSE [r |-> r, d |-> 1000000]   \* above i32min by "a lot"
PtOfBig(p) == [r |-> Rank(p.a), d |-> p.o]
IntKey(v) == IF v.t = "int" THEN PtOfInt(v.v) ELSE PtOfBig(v.p)
IntLt(a, b) == LET x == IntKey(a) y == IntKey(b)
               IN x.r < y.r \/ (x.r = y.r /\ x.d < y.d)
IntEq(a, b) == LET x == IntKey(a) y == IntKey(b) IN x.r = y.r /\ x.d = y.d
IntLe(a, b) == IntLt(a, b) \/ IntEq(a, b)

RECURSIVE JEq(_, _)
JEq(a, b) ==
    IF a.t # b.t THEN
        IsInteger(a) /\ IsInteger(b) /\ IntEq(a, b)
    ELSE CASE a.t \in {"null", "na"} -> TRUE
           [] a.t = "bool" -> a.v = b.v
           [] a.t = "int" -> a.v = b.v
           [] a.t = "big" -> Eq(a.p, b.p)
           [] a.t = "num" -> a.h = b.h
           [] a.t = "str" -> a.c = b.c
           [] a.t = "other" -> a.text = b.text
           [] a.t = "arr" -> Len(a.v) = Len(b.v) /\ \A i \in DOMAIN a.v : JEq(a.v[i], b.v[i])
           [] a.t = "obj" -> a.k = b.k /\ \A i \in DOMAIN a.v : JEq(a.v[i], b.v[i])

Keys(o) == { o.k[i] : i \in DOMAIN o.k }
Get(o, key) == o.v[CHOOSE i \in DOMAIN o.k : o.k[i] = key]
HasKey(o, key) == \E i \in DOMAIN o.k : o.k[i] = key

IsEmptyish(v) == \/ v.t = "null"
                 \/ v.t = "arr" /\ Len(v.v) = 0
                 \/ v.t = "obj" /\ Len(v.k) = 0

(* drop object members that are null / [] / {} (after pruning them) *)
RECURSIVE Prune(_)
Prune(v) ==
    CASE v.t = "arr" -> JArr([i \in DOMAIN v.v |-> Prune(v.v[i])])
      [] v.t = "obj" ->
           LET pv == [i \in DOMAIN v.v |-> Prune(v.v[i])]
               keep == SelectSeq([i \in DOMAIN v.k |-> i], LAMBDA i : ~IsEmptyish(pv[i]))
           IN JObj([j \in DOMAIN keep |-> v.k[keep[j]]], [j \in DOMAIN keep |-> pv[keep[j]]])
      [] OTHER -> v

(* a is contained in b: objects by member, arrays element-wise, scalars equal *)
RECURSIVE Contained(_, _)
Contained(a, b) ==
    CASE a.t = "obj" /\ b.t = "obj" ->
           \A i \in DOMAIN a.k : HasKey(b, a.k[i]) /\ Contained(a.v[i], Get(b, a.k[i]))
      [] a.t = "arr" /\ b.t = "arr" ->
           Len(a.v) = Len(b.v) /\ \A i \in DOMAIN a.v : Contained(a.v[i], b.v[i])
      [] OTHER -> JEq(a, b)

(* character tokens: ASCII printable characters are themselves, anything
   else is "<hex>"; byte length in UTF-8 for the tokens the generators use *)
ByteLen(tok) == CASE tok = "<e9>" -> 2 [] tok = "<df>" -> 2 [] tok = "<b7>" -> 2
                  [] tok = "<1c6>" -> 2 [] tok = "<20ac>" -> 3 [] tok = "<1d11e>" -> 4
                  [] OTHER -> 1
RECURSIVE SumBytes(_, _)
SumBytes(cs, i) == IF i > Len(cs) THEN 0 ELSE ByteLen(cs[i]) + SumBytes(cs, i + 1)
StrBytes(cs) == SumBytes(cs, 1)
StrScalars(cs) == Len(cs)
=============================================================================
