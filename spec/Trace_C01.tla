----------------------------- MODULE Trace_C01 -----------------------------
(***************************************************************************)
(* L4: trace validation for C01.  Trace of a case:                         *)
(*   case ; ingest+ ; [render ; [intro] ; [compile ; bounds]] ; endcase    *)
(* The verdict is taken at "endcase" from the stages recorded so far.      *)
(***************************************************************************)
EXTENDS ContractModule, Json, IOUtils

Rec == ndJsonDeserialize(IOEnv.TRACE)

VARIABLES l, nbad, nself, cur, ingest, rres, items, cres, codes
vars == <<l, nbad, nself, cur, ingest, rres, items, cres, codes>>

Init == /\ l = 1 /\ nbad = 0 /\ nself = 0 /\ cur = << >> /\ ingest = "none" /\ rres = "none"
        /\ items = << >> /\ cres = "none" /\ codes = << >>
IsEvent(k) == l <= Len(Rec) /\ Rec[l].ev = k /\ l' = l + 1

CaseEv == /\ IsEvent("case") /\ cur' = Rec[l] /\ ingest' = "none" /\ rres' = "none" /\ items' = << >>
          /\ cres' = "none" /\ codes' = << >> /\ UNCHANGED <<nbad, nself>>
Ingest == /\ IsEvent("ingest")
          /\ ingest' = IF Rec[l].res = "ok" /\ ingest # "rejected" THEN "ok" ELSE "rejected"
          /\ UNCHANGED <<nbad, nself, cur, rres, items, cres, codes>>
Render == /\ IsEvent("render") /\ rres' = Rec[l].res /\ items' = Rec[l].items
          /\ UNCHANGED <<nbad, nself, cur, ingest, cres, codes>>
Compile == /\ IsEvent("compile") /\ cres' = Rec[l].res /\ codes' = Rec[l].codes
           /\ UNCHANGED <<nbad, nself, cur, ingest, rres, items>>
Skip == /\ (IsEvent("bounds") \/ IsEvent("probe_na") \/ IsEvent("intro") \/ IsEvent("bounds_decl")
            \/ IsEvent("deser") \/ IsEvent("probe_panic"))
        /\ UNCHANGED <<nbad, nself, cur, ingest, rres, items, cres, codes>>

Diag == C01_Diag(cur.supported, ingest, rres, items, cres)

(* ---- known findings (known_findings.json): identified by the specific
   input (document id) and the diagnosis the pinned tree produces for it --- *)
KnownTable ==
  << <<"G1", "dup-field", "C01/DuplicateField", "C01-dup-field-after-sanitize">>,
     <<"G1", "case-pair", "C01/DuplicateField", "C01-dup-field-after-sanitize">>,
     <<"G1", "keywords", "C01/DuplicateField", "C01-dup-field-after-sanitize">>,
     <<"G1", "def-collide", "C01/DuplicateItem", "C01-dup-type-after-sanitize">>,
     <<"G3", "nullable-def-inner", "C01/DuplicateItem", "C01-inner-name-collision">>,
     <<"F3", "strs-null", "C01/DuplicateItem", "C01-untyped-enum-with-null-duplicate">>,
     <<"G2", "flatten-default", "C01/Unparsable", "C01-flattened-member-in-default">>,
     <<"G2", "bad-string-default", "C01/RenderPanic", "C01-invalid-default-render-panic">>,
     <<"G2", "unit-default", "C01/RenderPanic", "C01-unit-default-render-panic">> >>
(* findings that need a particular ingestion mode or settings vector as well: <<family, id,
   diagnosis, finding, modes, settings vectors>> *)
AllModes == {"root", "refs", "root+type", "titled-root"}
KnownTable2 ==
  << <<"F4", "obj-null", "C01/DuplicateItem", "C01-titled-nullable-root-duplicate", {"titled-root"}, 1 .. 10>>,
     <<"F4", "enum-null", "C01/DuplicateItem", "C01-titled-nullable-root-duplicate", {"titled-root"}, 1 .. 10>>,
     <<"G2", "containers", "C01/CompileError", "C01-custom-map-default-needs-fromiterator", AllModes, {4}>> >>
Known(d) == { KnownTable[i][4] : i \in { j \in DOMAIN KnownTable :
                KnownTable[j][1] = cur.fam /\ KnownTable[j][2] = cur.id /\ KnownTable[j][3] = d } }
            \cup { KnownTable2[i][4] : i \in { j \in DOMAIN KnownTable2 :
                KnownTable2[j][1] = cur.fam /\ KnownTable2[j][2] = cur.id /\ KnownTable2[j][3] = d
                /\ cur.mode \in KnownTable2[j][5] /\ cur.sidx \in KnownTable2[j][6]
                /\ (KnownTable2[j][4] = "C01-custom-map-default-needs-fromiterator" => \E i2 \in DOMAIN codes : codes[i2] = "E0277") } }

End == /\ IsEvent("endcase")
       /\ IF Diag = "ok" THEN nbad' = nbad
          ELSE /\ nbad' = nbad + 1
               /\ PrintT(<<"BAD", ToJson([l |-> l, case |-> Rec[l].case, prop |-> "C01", diag |-> Diag,
                                          fam |-> cur.fam, id |-> cur.id, mode |-> cur.mode, sidx |-> cur.sidx,
                                          known |-> Known(Diag), codes |-> codes,
                                          dup_items |-> IF rres = "ok" THEN DupItems(items) ELSE {},
                                          dup_fields |-> IF rres = "ok" THEN DupFields(items) ELSE {},
                                          dup_variants |-> IF rres = "ok" THEN DupVariants(items) ELSE {}])>>)
       /\ UNCHANGED <<nself, cur, ingest, rres, items, cres, codes>>

Next == CaseEv \/ Ingest \/ Render \/ Compile \/ Skip \/ End
Spec == Init /\ [][Next]_vars

Finished ==
    /\ PrintT(<<"TRACE-STATS", ToJson([lines |-> Len(Rec), diameter |-> TLCGet("stats").diameter,
                                      distinct |-> TLCGet("stats").distinct,
                                      generated |-> TLCGet("stats").generated])>>)
    /\ TLCGet("stats").diameter = Len(Rec) + 1
AtEnd == l = Len(Rec) + 1 => PrintT(<<"TRACE-END", ToJson([nbad |-> nbad, nself |-> nself, l |-> l])>>)
=============================================================================
