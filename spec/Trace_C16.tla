----------------------------- MODULE Trace_C16 -----------------------------
(***************************************************************************)
(* L4: trace validation for C16.  The trace of a case is                   *)
(*   begin ; call* ; final                                                 *)
(* and is replayed against TypeSpaceContract (one contract action per      *)
(* public call).  Batch independence is checked at "final": all cases of   *)
(* one group (same set of independent additions, split and ordered         *)
(* differently) must end with the same set of definitions.                 *)
(***************************************************************************)
EXTENDS TypeSpaceContract, Json, IOUtils

Rec == ndJsonDeserialize(IOEnv.TRACE)

VARIABLES l, nbad, nself,
          groups,     \* group -> set of definitions the first case of the group ended with
          dupsSoFar   \* names already defined twice after earlier calls of this case
vars == <<l, nbad, nself, groups, dupsSoFar, returned, added, defs>>

Init == l = 1 /\ nbad = 0 /\ nself = 0 /\ groups = << >> /\ dupsSoFar = {} /\ TSInit

IsEvent(k) == l <= Len(Rec) /\ Rec[l].ev = k /\ l' = l + 1

Begin == /\ IsEvent("begin")
         /\ returned' = {} /\ added' = << >> /\ defs' = {}
         /\ dupsSoFar' = {}
         /\ UNCHANGED <<nbad, nself, groups>>

KeysOf(e) == Range(e.defkeys)
DefNames(ds) == { d.name : d \in ds }
TrackDups(e) == dupsSoFar' = IF e.rres = "ok" THEN Range(e.dups) ELSE dupsSoFar

(* ---- known findings (known_findings.json) -------------------------------
   C16-redefinition-duplicates: a call that defines a definition key whose
   name is already defined in the type space (by an earlier definition of
   the same key, or by an earlier titled / hinted type of that name) adds a
   second definition instead of failing or reusing (ref_to_id / name_to_id
   are overwritten, both entries stay in id_to_entry; lib.rs:627-631,
   747-750).  Known only when every duplicated name either was already
   duplicated before this call or is such a key of this very call. *)
Known(e, d) ==
    { k \in {"C16-redefinition-duplicates"} :
        /\ d = "C16/DuplicateDefinition"
        /\ \A n \in Range(e.dups) :
              \/ n \in dupsSoFar
              \/ \E t \in KeysOf(e) : (n = t \/ n = t \o "Inner") /\ n \in DefNames(defs) }

CallAccept == /\ IsEvent("call")
              /\ Call(Rec[l])
              /\ TrackDups(Rec[l])
              /\ UNCHANGED <<nbad, nself, groups>>

CallReject == /\ IsEvent("call")
              /\ LET e == Rec[l] d == CallDiag(e) IN
                   /\ d # "ok"
                   /\ PrintT(<<"BAD", ToJson([l |-> l, case |-> e.case, seq |-> e.seq, prop |-> "C16",
                                              diag |-> d, tpl |-> e.tpl, known |-> Known(e, d),
                                              dups |-> e.dups, lost |-> StableWitness(e)])>>)
                   /\ Advance(e)
                   /\ TrackDups(e)
              /\ nbad' = nbad + 1
              /\ UNCHANGED <<nself, groups>>

(* batch independence *)
GKey(e) == e.group
InGroup(e) == Len(e.group) > 0 /\ e.rres = "ok"
FinalOK(e) == InGroup(e) /\ GKey(e) \in DOMAIN groups => groups[GKey(e)] = Range(e.defs)

Final == /\ IsEvent("final")
         /\ LET e == Rec[l] IN
              /\ IF FinalOK(e) THEN nbad' = nbad
                 ELSE /\ nbad' = nbad + 1
                      /\ PrintT(<<"BAD", ToJson([l |-> l, case |-> e.case, prop |-> "C16",
                                                 diag |-> "C16/BatchDependence", known |-> {},
                                                 group |-> e.group,
                                                 first |-> groups[GKey(e)], this |-> Range(e.defs)])>>)
              /\ groups' = IF InGroup(e) /\ GKey(e) \notin DOMAIN groups
                           THEN (GKey(e) :> Range(e.defs)) @@ groups ELSE groups
         /\ UNCHANGED <<nself, dupsSoFar, returned, added, defs>>

Next == Begin \/ CallAccept \/ CallReject \/ Final
Spec == Init /\ [][Next]_vars

Finished ==
    /\ PrintT(<<"TRACE-STATS", ToJson([lines |-> Len(Rec),
                                      diameter |-> TLCGet("stats").diameter,
                                      distinct |-> TLCGet("stats").distinct,
                                      generated |-> TLCGet("stats").generated])>>)
    /\ TLCGet("stats").diameter = Len(Rec) + 1
AtEnd == l = Len(Rec) + 1 => PrintT(<<"TRACE-END", ToJson([nbad |-> nbad, nself |-> nself, l |-> l])>>)
=============================================================================
