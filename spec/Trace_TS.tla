------------------------------ MODULE Trace_TS ------------------------------
(***************************************************************************)
(* L4: conformance of the real TypeSpace to the implementation model       *)
(* TypeSpaceImpl.  The trace of a case is  ts_begin ; ts*  with one "ts"   *)
(* event per public ingestion call, recorded at its return and carrying    *)
(* the projection (hook verif_snapshot) of next_id, id_to_entry,           *)
(* name_to_id and ref_to_id.  Every recorded call must be an instance of   *)
(* the model's step relation (StepOK over the state before and after) and  *)
(* every recorded state must satisfy the model's invariants.               *)
(***************************************************************************)
EXTENDS TypeSpaceImpl, Json, IOUtils

Rec == ndJsonDeserialize(IOEnv.TRACE)

VARIABLES l, nbad, nself
vars == <<l, nbad, nself, nextId, ents, nameIdx, refIdx, clean>>

Init == l = 1 /\ nbad = 0 /\ nself = 0 /\ TSIInit

IsEvent(k) == l <= Len(Rec) /\ Rec[l].ev = k /\ l' = l + 1

Begin == /\ IsEvent("ts_begin")
         /\ nextId' = 1 /\ ents' = << >> /\ nameIdx' = << >> /\ refIdx' = << >> /\ clean' = TRUE
         /\ UNCHANGED <<nbad, nself>>

SeqRange(s) == { s[i] : i \in DOMAIN s }

(* the recorded state as a model state *)
Recorded(e) ==
    LET es == SeqRange(e.ents) ns == SeqRange(e.names) rs == SeqRange(e.refs) IN
    [nextId  |-> e.next_id,
     ents    |-> [i \in {x.id : x \in es} |->
                    LET x == CHOOSE x \in es : x.id = i IN
                    [named |-> x.named, name |-> x.name, to |-> SeqRange(x.to)]],
     nameIdx |-> [n \in {x.k : x \in ns} |-> (CHOOSE x \in ns : x.k = n).id],
     refIdx  |-> [k \in {x.k : x \in rs} |-> (CHOOSE x \in rs : x.k = k).id],
     clean   |-> clean /\ e.res = "ok"]

(* the keys a call may (re)define: its definition keys, its root title, the root itself *)
KeysOf(e) == SeqRange(e.defkeys) \cup {"#"}

Diag(e) == LET n == Recorded(e) sd == StepDiag(State, n, KeysOf(e)) IN
           IF sd # "ok" THEN sd ELSE StateDiag(n)

Adopt(e) == LET n == Recorded(e) IN
            /\ nextId' = n.nextId /\ ents' = n.ents /\ nameIdx' = n.nameIdx
            /\ refIdx' = n.refIdx /\ clean' = n.clean

CallAccept == /\ IsEvent("ts")
              /\ Diag(Rec[l]) = "ok"
              /\ Adopt(Rec[l])
              /\ UNCHANGED <<nbad, nself>>

CallReject == /\ IsEvent("ts")
              /\ LET e == Rec[l] d == Diag(e) IN
                   /\ d # "ok"
                   /\ PrintT(<<"BAD", ToJson([l |-> l, case |-> e.case, seq |-> e.seq, prop |-> "C16",
                                              diag |-> d, tpl |-> e.tpl, known |-> {},
                                              before |-> [next_id |-> nextId, names |-> nameIdx, refs |-> refIdx],
                                              after |-> [next_id |-> e.next_id, names |-> e.names, refs |-> e.refs]])>>)
                   /\ Adopt(e)
              /\ nbad' = nbad + 1
              /\ UNCHANGED nself

Next == Begin \/ CallAccept \/ CallReject
Spec == Init /\ [][Next]_vars

Finished ==
    /\ PrintT(<<"TRACE-STATS", ToJson([lines |-> Len(Rec),
                                      diameter |-> TLCGet("stats").diameter,
                                      distinct |-> TLCGet("stats").distinct,
                                      generated |-> TLCGet("stats").generated])>>)
    /\ TLCGet("stats").diameter = Len(Rec) + 1
AtEnd == l = Len(Rec) + 1 => PrintT(<<"TRACE-END", ToJson([nbad |-> nbad, nself |-> nself, l |-> l])>>)
=============================================================================
