------------------------------- MODULE Cycles -------------------------------
(***************************************************************************)
(* L2 implementation model: TypeSpace::break_cycles                        *)
(* (typify-impl/src/cycles.rs), the iterative depth-first search that      *)
(* replaces every containment edge closing a cycle by an edge to a Box.    *)
(*                                                                         *)
(* State of the code             here                                      *)
(*   id_to_entry (containment)   children : node -> Seq(node), the result  *)
(*                               of get_child_ids in its order (heap edges *)
(*                               - Box, Vec, Map, Set - are not children)  *)
(*   range                       roots : Seq(node), ascending              *)
(*   visited, active             visited, active                           *)
(*   stack of Node::Start /      stack : Seq([st, id, ch]); ch is the      *)
(*     Node::Processing          list of children still to descend into    *)
(*   child ids replaced by       boxed : set of <<parent, child>> (the     *)
(*     id_to_box(child)          replacement is by child id: every         *)
(*                               occurrence of that child in the parent)   *)
(*                                                                         *)
(* One action per arm of the loop, named after the event the hook records  *)
(* (verif.rs cycle_event): Root, Seen, Visit, Push, Pop.                   *)
(*                                                                         *)
(* Design-level properties (checked by TLC over all graphs in MC_Cycles):  *)
(*   Acyclic    at termination the unboxed containment edges reachable     *)
(*              from the roots contain no cycle (C07's finite-size half)   *)
(*   OnlyCycles every boxed edge lies on a cycle of the original graph     *)
(*              (no gratuitous indirection)                                *)
(*   Termination (as a bound on the number of steps)                       *)
(***************************************************************************)
EXTENDS Naturals, Sequences, FiniteSets

VARIABLES children,   \* the containment graph (constant during a run)
          roots,      \* the ids of the range, in order (constant during a run)
          ri,         \* index of the next root
          visited, active, stack, boxed
cvars == <<children, roots, ri, visited, active, stack, boxed>>

Nodes == DOMAIN children
SeqRange(q) == { q[i] : i \in DOMAIN q }
Top == stack[Len(stack)]
Frame(st, id, ch) == [st |-> st, id |-> id, ch |-> ch]
ReplaceTop(f) == [stack EXCEPT ![Len(stack)] = f]
SelectNotIn(q, S) == SelectSeq(q, LAMBDA x : x \notin S)

StartState(ch, rs) ==
    /\ children = ch /\ roots = rs /\ ri = 1
    /\ visited = {} /\ active = {} /\ stack = << >> /\ boxed = {}

(* for id in range { if visited.contains(id) { continue } ... } *)
Root(id, skipped) ==
    /\ stack = << >> /\ ri <= Len(roots) /\ roots[ri] = id
    /\ skipped = (id \in visited)
    /\ ri' = ri + 1
    /\ IF skipped THEN UNCHANGED <<active, stack>>
       ELSE active' = {id} /\ stack' = << Frame("start", id, << >>) >>
    /\ UNCHANGED <<children, roots, visited, boxed>>

(* Node::Start { type_id } if visited.contains(type_id) *)
Seen(id) ==
    /\ stack # << >> /\ Top.st = "start" /\ Top.id = id /\ id \in visited
    /\ stack' = ReplaceTop(Frame("proc", id, << >>))
    /\ UNCHANGED <<children, roots, ri, visited, active, boxed>>

(* Node::Start { type_id }: mark visited, snip the children that are active,
   queue the others *)
SnipOf(id) == SelectSeq(children[id], LAMBDA c : c \in active)
DescendOf(id) == SelectNotIn(children[id], active)
Visit(id) ==
    /\ stack # << >> /\ Top.st = "start" /\ Top.id = id /\ id \notin visited
    /\ visited' = visited \cup {id}
    /\ boxed' = boxed \cup { <<id, c>> : c \in SeqRange(SnipOf(id)) }
    /\ stack' = ReplaceTop(Frame("proc", id, DescendOf(id)))
    /\ UNCHANGED <<children, roots, ri, active>>

(* Node::Processing with a child left: children_ids.pop() takes the last *)
Push(child) ==
    /\ stack # << >> /\ Top.st = "proc" /\ Top.ch # << >>
    /\ child = Top.ch[Len(Top.ch)]
    /\ active' = active \cup {child}
    /\ stack' = Append(ReplaceTop(Frame("proc", Top.id, SubSeq(Top.ch, 1, Len(Top.ch) - 1))),
                       Frame("start", child, << >>))
    /\ UNCHANGED <<children, roots, ri, visited, boxed>>

(* Node::Processing with no child left *)
Pop(id) ==
    /\ stack # << >> /\ Top.st = "proc" /\ Top.ch = << >> /\ Top.id = id
    /\ active' = active \ {id}
    /\ stack' = SubSeq(stack, 1, Len(stack) - 1)
    /\ UNCHANGED <<children, roots, ri, visited, boxed>>

Done == stack = << >> /\ ri > Len(roots)

CNext == \/ \E id \in Nodes, b \in BOOLEAN : Root(id, b)
         \/ \E id \in Nodes : Seen(id) \/ Visit(id) \/ Push(id) \/ Pop(id)

(* ---- properties --------------------------------------------------------- *)
Edges == { <<n, c>> \in Nodes \X Nodes : c \in SeqRange(children[n]) }
Kept == Edges \ boxed
RECURSIVE ReachFrom(_, _, _)
ReachFrom(S, E, k) ==          \* nodes reachable from S by at least zero edges of E (k = fuel)
    IF k = 0 THEN S
    ELSE LET T == S \cup { e[2] : e \in { x \in E : x[1] \in S } } IN
         IF T = S THEN S ELSE ReachFrom(T, E, k - 1)
Reach(a, E) == ReachFrom({ e[2] : e \in { x \in E : x[1] = a } }, E, Cardinality(Nodes))   \* by at least one edge
OnCycle(n, E) == n \in Reach(n, E)

Acyclic == Done => \A n \in ReachFrom(SeqRange(roots), Edges, Cardinality(Nodes)) : ~OnCycle(n, Kept)
OnlyCycles == \A e \in boxed : e[1] \in Reach(e[2], Edges) \/ e[1] = e[2]
(* the active set is exactly the set of ids on the stack *)
ActiveIsStack == active = { stack[i].id : i \in DOMAIN stack }
=============================================================================
