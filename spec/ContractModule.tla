--------------------------- MODULE ContractModule ---------------------------
(***************************************************************************)
(* L1 contract for C01: the rendered module of a case.                     *)
(*   C01a  ingestion ok => rendering returns, parses as a file, compiles   *)
(*   C01b  documents of the supported fragment are not rejected            *)
(* plus the structural facts the statement enumerates, evaluated on the    *)
(* item inventory (so that a failure is diagnosed before rustc speaks):    *)
(* no duplicate items per module, no duplicate fields or variants, no      *)
(* conflicting impls.                                                      *)
(***************************************************************************)
EXTENDS Sequences, FiniteSets, Integers, TLC

TypeNs == {"struct", "enum", "type", "mod"}     \* the type namespace
ValueNs == {"fn"}

Idx(items, P(_)) == { i \in DOMAIN items : P(items[i]) }

DupItems(items) ==
    { items[i].name : i \in { a \in DOMAIN items :
        \E b \in DOMAIN items : a # b /\ items[a].mod = items[b].mod /\ items[a].name = items[b].name
             /\ \/ items[a].kind \in TypeNs /\ items[b].kind \in TypeNs
                \/ items[a].kind \in ValueNs /\ items[b].kind \in ValueNs } }

DupIn(fs) == { fs[i].name : i \in { a \in DOMAIN fs : \E b \in DOMAIN fs : a # b /\ fs[a].name = fs[b].name } }

DupFields(items) ==
    UNION { DupIn(items[i].fields) : i \in Idx(items, LAMBDA x : x.kind = "struct") }
    \cup UNION { UNION { DupIn(items[i].variants[j].fields) : j \in DOMAIN items[i].variants } :
                 i \in Idx(items, LAMBDA x : x.kind = "enum") }
DupVariants(items) == UNION { DupIn(items[i].variants) : i \in Idx(items, LAMBDA x : x.kind = "enum") }

ConflictingImpls(items) ==
    { <<items[i].trait_, items[i].for_>> : i \in { a \in Idx(items, LAMBDA x : x.kind = "impl" /\ x.trait_ # "") :
        \E b \in DOMAIN items : a # b /\ items[b].kind = "impl" /\ items[a].mod = items[b].mod
             /\ items[a].trait_ = items[b].trait_ /\ items[a].for_ = items[b].for_
             /\ items[a].generics = items[b].generics } }

(* verdict for one case.  ingest \in {"ok","rejected"}; rres = result of
   rendering ("ok","panic","unparsable","none"); cres = result of compiling
   ("ok","err","none") *)
C01_Diag(supported, ingest, rres, items, cres) ==
    IF ingest # "ok" THEN (IF supported THEN "C01/SupportedRejected" ELSE "ok")
    ELSE IF rres = "panic" THEN "C01/RenderPanic"
    ELSE IF rres = "unparsable" THEN "C01/Unparsable"
    ELSE IF DupItems(items) # {} THEN "C01/DuplicateItem"
    ELSE IF DupFields(items) # {} THEN "C01/DuplicateField"
    ELSE IF DupVariants(items) # {} THEN "C01/DuplicateVariant"
    ELSE IF ConflictingImpls(items) # {} THEN "C01/ConflictingImpls"
    ELSE IF cres # "ok" THEN "C01/CompileError"
    ELSE "ok"
=============================================================================
