----------------------------- MODULE IntSchema -----------------------------
(***************************************************************************)
(* L0/L1: the abstract integer schema and its reference semantics          *)
(* (what the schema admits), and the contract of property C10.             *)
(*                                                                         *)
(* An integer schema is a record with optional fields (presence = field in *)
(* DOMAIN):  fmt : STRING, min/max/emin/emax/def : lattice point,          *)
(* mult : Nat.  It denotes  {"type":"integer","format":fmt,"minimum":min,  *)
(* "exclusiveMinimum":emin,... ,"multipleOf":mult,"default":def}.          *)
(***************************************************************************)
EXTENDS Lattice

Has(S, k) == k \in DOMAIN S

(* the integer formats typify documents, with the Rust type they name *)
FormatType(f) == CASE f = "int8" -> "i8"   [] f = "uint8" -> "u8"
                   [] f = "int16" -> "i16" [] f = "uint16" -> "u16"
                   [] f = "int" -> "i32"   [] f = "int32" -> "i32"
                   [] f = "uint" -> "u32"  [] f = "uint32" -> "u32"
                   [] f = "int64" -> "i64" [] f = "uint64" -> "u64"
                   [] OTHER -> "none"
Recognised(S) == Has(S, "fmt") /\ FormatType(S.fmt) # "none"

(* draft-07 validation of the integer n (a lattice point) against S, with a
   recognised format read as a range (C02/C10 wording) -- exact arithmetic *)
BoundsOK(S, n) ==
    /\ (Has(S, "min")  => Le(S.min, n))
    /\ (Has(S, "max")  => Le(n, S.max))
    /\ (Has(S, "emin") => Lt(S.emin, n))
    /\ (Has(S, "emax") => Lt(n, S.emax))
RangeOK(S, n) == Recognised(S) => InType(FormatType(S.fmt), n)
Admitted(S, n) ==
    /\ BoundsOK(S, n)
    /\ RangeOK(S, n)
    /\ (Has(S, "mult") /\ S.mult = 2 => IsEven(n))

(***************************************************************************)
(* C10 contract.                                                           *)
(* Floor (interpretation A9): an unbounded "integer" admits values no Rust *)
(* type holds; the documented fallback is i64.  An obligation exists for a *)
(* probe n only if n is inside i64, or the schema names a recognised       *)
(* format (whose range then bounds n anyway).                              *)
(***************************************************************************)
Floor(S, n) == InType("i64", n) \/ Recognised(S)

(* the chosen type can represent every admitted probe *)
Represents(S, ty, probes) ==
    \A n \in probes : Admitted(S, n) /\ Floor(S, n) => InType(ty, n)
Witnesses(S, ty, probes) ==
    { n \in probes : Admitted(S, n) /\ Floor(S, n) /\ ~InType(ty, n) }
(* NonZero only if zero is excluded *)
NonZeroOK(S, ty) == IsNonZero(ty) => ~Admitted(S, Zero)
(* a numeric default outside the admitted range must be an error; the range
   is bounds and format range (multipleOf is not a range) *)
DefaultInRange(S) == Has(S, "def") => BoundsOK(S, S.def) /\ RangeOK(S, S.def)

(* verdict on one observed outcome: res \in {"ok","err","panic"}, ty = the
   builtin name reported through the public API when res = "ok" *)
C10_TypeKnown(res, ty)   == res = "ok" => KnownType(ty)
C10_Represents(S, res, ty, probes) == res = "ok" /\ KnownType(ty) => Represents(S, ty, probes)
C10_NonZero(S, res, ty)  == res = "ok" /\ KnownType(ty) => NonZeroOK(S, ty)
C10_Default(S, res)      == ~DefaultInRange(S) => res # "ok"

C10_Diag(S, res, ty, probes) ==
    IF ~C10_TypeKnown(res, ty) THEN "C10/UnknownBuiltin"
    ELSE IF ~C10_Default(S, res) THEN "C10/DefaultOutOfRangeAccepted"
    ELSE IF ~C10_NonZero(S, res, ty) THEN "C10/NonZeroAdmitsZero"
    ELSE IF ~C10_Represents(S, res, ty, probes) THEN "C10/Narrower"
    ELSE "ok"
=============================================================================
