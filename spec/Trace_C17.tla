----------------------------- MODULE Trace_C17 -----------------------------
(***************************************************************************)
(* L4: trace validation for C17 and C19 on the shared document pipeline    *)
(* (same events as Trace_C01).  Verdicts at "endcase", only for cases that *)
(* were ingested, rendered and compiled (the rest is C01's business).      *)
(***************************************************************************)
EXTENDS ContractIntro, Json, IOUtils

Rec == ndJsonDeserialize(IOEnv.TRACE)

VARIABLES l, nbad, nself, cur, rows, items, decl, failed, cres, flags, codes
vars == <<l, nbad, nself, cur, rows, items, decl, failed, cres, flags, codes>>

NoFlags == [chrono |-> FALSE, uuid |-> FALSE, serde_json |-> FALSE, regress |-> FALSE]
Init == /\ l = 1 /\ nbad = 0 /\ nself = 0 /\ cur = << >> /\ rows = << >> /\ items = << >>
        /\ decl = << >> /\ failed = << >> /\ cres = "none" /\ flags = [m |-> NoFlags, u |-> NoFlags] /\ codes = << >>
IsEvent(k) == l <= Len(Rec) /\ Rec[l].ev = k /\ l' = l + 1

CaseEv == /\ IsEvent("case") /\ cur' = Rec[l] /\ rows' = << >> /\ items' = << >> /\ decl' = << >>
          /\ failed' = << >> /\ cres' = "none" /\ flags' = [m |-> NoFlags, u |-> NoFlags] /\ codes' = << >>
          /\ UNCHANGED <<nbad, nself>>
Render == /\ IsEvent("render") /\ items' = Rec[l].items
          /\ flags' = IF Rec[l].res = "ok" THEN [m |-> Rec[l].mentions, u |-> Rec[l].uses] ELSE flags
          /\ UNCHANGED <<nbad, nself, cur, rows, decl, failed, cres, codes>>
Intro == /\ IsEvent("intro") /\ rows' = Rec[l].types
         /\ UNCHANGED <<nbad, nself, cur, items, decl, failed, cres, flags, codes>>
Decl == /\ IsEvent("bounds_decl") /\ decl' = Rec[l].rows
        /\ UNCHANGED <<nbad, nself, cur, rows, items, failed, cres, flags, codes>>
Compile == /\ IsEvent("compile") /\ cres' = Rec[l].res /\ codes' = Rec[l].codes
           /\ UNCHANGED <<nbad, nself, cur, rows, items, decl, failed, flags>>
Bounds == /\ IsEvent("bounds") /\ failed' = Rec[l].failed
          /\ UNCHANGED <<nbad, nself, cur, rows, items, decl, cres, flags, codes>>
Skip == /\ (IsEvent("ingest") \/ IsEvent("probe_na") \/ IsEvent("deser") \/ IsEvent("probe_panic"))
        /\ UNCHANGED <<nbad, nself, cur, rows, items, decl, failed, cres, flags, codes>>

TypeMod == IF "typeMod" \in DOMAIN cur.settings THEN cur.settings.typeMod ELSE ""

(* ---- known findings (known_findings.json) ------------------------------- *)
ItemNamed(name) == items[CHOOSE i \in TopItems(items, name) : TRUE]
FailingImpls(row) == { x \in {"FromStr", "Display", "Default"} :
                        row.impls[x] /\ BoundDeclared(decl, row.name, "has_impl:" \o x)
                        /\ ~BoundHolds(decl, failed, row.name, "has_impl:" \o x) }
RowNamed(name) == rows[CHOOSE i \in DOMAIN rows : rows[i].name = name /\ rows[i].kind \in NamedKinds]
Known17(d, name) ==
    { k \in {"C17-constrained-string-newtype-claims-display", "C17-serde-json-in-default-fn-without-flag"} :
        CASE k = "C17-constrained-string-newtype-claims-display" ->
               /\ d = "C17/HasImplButNotImplemented"
               /\ LET it == ItemNamed(name) IN
                    /\ it.shape = "tuple" /\ Len(it.fields) = 1
                    /\ it.fields[1].ty = "::std::string::String" /\ it.fields[1].vis = "priv"
               /\ FailingImpls(RowNamed(name)) = {"Display"}
          [] k = "C17-serde-json-in-default-fn-without-flag" ->
               /\ d = "C17/UsesFlagMissing"
               /\ \A c \in {"chrono", "uuid", "regress"} : flags.m[c] => flags.u[c]
               /\ \E i \in DOMAIN items : items[i].mod = "defaults" /\ items[i].kind = "fn" }
Known19(d, name) == {}

End == /\ IsEvent("endcase")
       /\ IF cres # "ok" THEN
             (* C19: "these traits never appear on a type for which they cannot be derived": the module
                fails with a derive error (E0204: Copy on a type with a non-Copy member) *)
             IF cres = "err" /\ \E i \in DOMAIN codes : codes[i] = "E0204"
             THEN /\ nbad' = nbad + 1
                  /\ PrintT(<<"BAD", ToJson([l |-> l, case |-> Rec[l].case, prop |-> "C19", diag |-> "C19/UnderivableTraitDerived",
                            fam |-> cur.fam, id |-> cur.id, mode |-> cur.mode, sidx |-> cur.sidx, ty |-> "", known |-> {},
                            codes |-> codes])>>)
             ELSE IF C19_DeriveBad(items) # {}
             THEN /\ nbad' = nbad + 1
                  /\ PrintT(<<"BAD", ToJson([l |-> l, case |-> Rec[l].case, prop |-> "C19",
                            diag |-> IF DerivedTwice(items[CHOOSE i \in C19_DeriveBad(items) : TRUE])
                                     THEN "C19/TraitDerivedTwice" ELSE "C19/PromisedTraitNotDerived",
                            fam |-> cur.fam, id |-> cur.id, mode |-> cur.mode, sidx |-> cur.sidx,
                            ty |-> items[CHOOSE i \in C19_DeriveBad(items) : TRUE].name, known |-> {},
                            codes |-> codes])>>)
             ELSE nbad' = nbad
          ELSE LET b17 == C17_Bad(rows, items, decl, failed, TypeMod)
                   b19 == C19_Bad(items, decl, failed)
                   fd == C17_FlagDiag(flags.m, flags.u)
               IN /\ \A i \in b17 :
                       PrintT(<<"BAD", ToJson([l |-> l, case |-> Rec[l].case, prop |-> "C17",
                            diag |-> C17_RowDiag(rows[i], rows, items, decl, failed, TypeMod),
                            fam |-> cur.fam, id |-> cur.id, mode |-> cur.mode, sidx |-> cur.sidx,
                            ty |-> rows[i].name,
                            known |-> Known17(C17_RowDiag(rows[i], rows, items, decl, failed, TypeMod), rows[i].name)])>>)
                  /\ \A i \in b19 :
                       PrintT(<<"BAD", ToJson([l |-> l, case |-> Rec[l].case, prop |-> "C19",
                            diag |-> C19_ItemDiag(items[i], decl, failed),
                            fam |-> cur.fam, id |-> cur.id, mode |-> cur.mode, sidx |-> cur.sidx,
                            ty |-> items[i].name, known |-> Known19("", items[i].name)])>>)
                  /\ (fd # "ok" =>
                       PrintT(<<"BAD", ToJson([l |-> l, case |-> Rec[l].case, prop |-> "C17", diag |-> fd,
                            fam |-> cur.fam, id |-> cur.id, mode |-> cur.mode, sidx |-> cur.sidx,
                            ty |-> "", known |-> Known17(fd, ""), mentions |-> flags.m, uses |-> flags.u])>>))
                  /\ nbad' = nbad + Cardinality(b17) + Cardinality(b19) + (IF fd # "ok" THEN 1 ELSE 0)
       /\ UNCHANGED <<nself, cur, rows, items, decl, failed, cres, flags, codes>>

Next == CaseEv \/ Render \/ Intro \/ Decl \/ Compile \/ Bounds \/ Skip \/ End
Spec == Init /\ [][Next]_vars

Finished ==
    /\ PrintT(<<"TRACE-STATS", ToJson([lines |-> Len(Rec), diameter |-> TLCGet("stats").diameter,
                                      distinct |-> TLCGet("stats").distinct,
                                      generated |-> TLCGet("stats").generated])>>)
    /\ TLCGet("stats").diameter = Len(Rec) + 1
AtEnd == l = Len(Rec) + 1 => PrintT(<<"TRACE-END", ToJson([nbad |-> nbad, nself |-> nself, l |-> l])>>)
=============================================================================
