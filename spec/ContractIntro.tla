---------------------------- MODULE ContractIntro ----------------------------
(***************************************************************************)
(* L1 contracts evaluated on (introspection rows, item inventory, bound    *)
(* assertion results) of one rendered case:                                *)
(*   C17  the introspection API describes the generated code               *)
(*   C19  every generated type is public and carries the promised traits   *)
(*                                                                         *)
(* rows   : Seq([id, name, ident, kind, edges : Seq([edge, label, to,      *)
(*               required]), builtin, impls : [FromStr, Display, Default], *)
(*               builder : STRING])            (Type API, iter_types())    *)
(* items  : item inventory (syn) of to_stream()                            *)
(* decl   : Seq([k, ty, what])   bound assertions generated for the case   *)
(* failed : Seq(k)               assertions that did not compile           *)
(***************************************************************************)
EXTENDS Sequences, FiniteSets, Integers, TLC

Range(s) == { s[i] : i \in DOMAIN s }
NamedKinds == {"struct", "enum", "newtype"}

TopItems(items, name) == { i \in DOMAIN items : items[i].mod = "" /\ items[i].name = name
                                                  /\ items[i].kind \in {"struct", "enum"} }
RowById(rows, id) == rows[CHOOSE i \in DOMAIN rows : rows[i].id = id]
HasRow(rows, id) == \E i \in DOMAIN rows : rows[i].id = id

BoundHolds(decl, failed, ty, what) ==
    \A i \in DOMAIN decl : decl[i].ty = ty /\ decl[i].what = what => decl[i].k \notin Range(failed)
BoundDeclared(decl, ty, what) == \E i \in DOMAIN decl : decl[i].ty = ty /\ decl[i].what = what

(* ------------------------------------------------------------------ C19 *)
AllUnit(item) == \A j \in DOMAIN item.variants : item.variants[j].shape = "unit"
StringNewtype(item) == item.kind = "struct" /\ item.shape = "tuple" /\ Len(item.fields) = 1
                       /\ item.fields[1].ty = "::std::string::String"
(* a trait listed twice in one derive attribute: two conflicting impls (E0119), so the type has
   none of its promised traits; decidable from the rendered item alone *)
DerivedTwice(item) == \/ \E a, b \in DOMAIN item.derives : a < b /\ item.derives[a] = item.derives[b]
                      (* ... or derived and also implemented by hand for the same type *)
                      \/ ("derive_conflicts" \in DOMAIN item /\ Len(item.derive_conflicts) > 0)
(* the promised traits, as the rendered item shows them: Clone, Debug and Serialize derived,
   Deserialize derived or implemented by hand (the validating implementation) - by the paths typify
   emits, so that a foreign macro of the same short name does not count *)
PromisedShown(item) ==
    LET ds == Range(item.derives)
        manual == IF "manual_impls" \in DOMAIN item THEN Range(item.manual_impls) ELSE {} IN
    /\ "Clone" \in ds /\ "Debug" \in ds /\ "::serde::Serialize" \in ds
    /\ ("::serde::Deserialize" \in ds \/ "serde::Deserialize" \in manual)
C19_DeriveBad(items) ==
    { i \in DOMAIN items : items[i].mod = "" /\ items[i].kind \in {"struct", "enum"}
                           /\ (DerivedTwice(items[i]) \/ ~PromisedShown(items[i])) }
C19_ItemDiag(item, decl, failed) ==
    IF item.vis # "pub" THEN "C19/NotPublic"
    ELSE IF DerivedTwice(item) THEN "C19/TraitDerivedTwice"
    ELSE IF ~PromisedShown(item) THEN "C19/PromisedTraitNotDerived"
    ELSE IF BoundDeclared(decl, item.name, "promised") /\ ~BoundHolds(decl, failed, item.name, "promised")
         THEN "C19/PromisedTraitMissing"
    ELSE IF item.kind = "enum" /\ AllUnit(item) /\ BoundDeclared(decl, item.name, "copy")
            /\ ~(BoundHolds(decl, failed, item.name, "copy") /\ BoundHolds(decl, failed, item.name, "ordhash"))
         THEN "C19/DatalessEnumTraitsMissing"
    ELSE IF StringNewtype(item) /\ BoundDeclared(decl, item.name, "ordhash")
            /\ ~BoundHolds(decl, failed, item.name, "ordhash")
         THEN "C19/StringNewtypeTraitsMissing"
    ELSE "ok"
C19_Bad(items, decl, failed) ==
    { i \in DOMAIN items : items[i].mod = "" /\ items[i].kind \in {"struct", "enum"}
                           /\ C19_ItemDiag(items[i], decl, failed) # "ok" }

(* ------------------------------------------------------------------ C17 *)
ExpectedIdent(typeMod, name) == IF typeMod = "" THEN name ELSE typeMod \o "::" \o name

FieldsOf(item) == item.fields
PropEdges(row) == SelectSeq(row.edges, LAMBDA e : e.edge = "prop")

(* a struct's reported properties are exactly its fields *)
StructAgrees(row, item, rows) ==
    LET ps == PropEdges(row) fs == FieldsOf(item) IN
    /\ item.kind = "struct" /\ item.shape \in {"named", "unit"}
    /\ Len(ps) = Len(fs)
    /\ \A j \in DOMAIN ps :
         /\ ps[j].label = fs[j].name
         /\ ps[j].required = ~fs[j].has_default
         /\ HasRow(rows, ps[j].to) /\ RowById(rows, ps[j].to).name = fs[j].ty

VariantNames(row) ==
    LET es == row.edges IN
    { IF es[j].edge = "variant_prop" THEN "" ELSE es[j].label : j \in DOMAIN es } \ {""}
EnumAgrees(row, item) ==
    /\ item.kind = "enum"
    /\ \A j \in DOMAIN row.edges :
         LET e == row.edges[j] IN
         e.edge \in {"variant_simple", "variant_tuple"} =>
            \E v \in DOMAIN item.variants :
               /\ item.variants[v].name = e.label
               /\ (e.edge = "variant_simple" <=> item.variants[v].shape = "unit")
    /\ \A v \in DOMAIN item.variants :
         item.variants[v].shape # "named" =>
            \E j \in DOMAIN row.edges : row.edges[j].label = item.variants[v].name

NewtypeAgrees(row, item, rows) ==
    /\ item.kind = "struct" /\ item.shape = "tuple" /\ Len(item.fields) = 1
    /\ Len(row.edges) = 1 /\ HasRow(rows, row.edges[1].to)
    /\ RowById(rows, row.edges[1].to).name = item.fields[1].ty

BuilderItems(items, name) == { i \in DOMAIN items : items[i].mod = "builder" /\ items[i].name = name
                                                      /\ items[i].kind = "struct" }

(* every path mentioned by a reported identifier (ident() and parameter_ident(), of named and
   of unnamed types alike: options, vectors, maps, boxes, tuples, arrays) resolves from outside
   the configured module: an absolute path, a primitive, a caller-supplied crate-relative path,
   or a generated top-level item reached through the configured module *)
Prims == {"bool", "i8", "i16", "i32", "i64", "i128", "u8", "u16", "u32", "u64", "u128", "isize", "usize",
          "f32", "f64", "str", "String", "char", "Option", "Vec", "Box", "Result"}
PathResolves(p, items, typeMod) ==
    \/ p.abs
    \/ Len(p.segs) = 1 /\ p.segs[1] \in Prims
    \/ p.segs[1] \in {"crate", "super", "self"}
    \/ typeMod = "" /\ Len(p.segs) = 1 /\ TopItems(items, p.segs[1]) # {}
    \/ typeMod # "" /\ Len(p.segs) = 2 /\ p.segs[1] = typeMod /\ TopItems(items, p.segs[2]) # {}
IdentPathsResolve(row, items, typeMod) ==
    /\ \A j \in DOMAIN row.ident_paths : PathResolves(row.ident_paths[j], items, typeMod)
    /\ \A j \in DOMAIN row.param_paths : PathResolves(row.param_paths[j], items, typeMod)

C17_RowDiag(row, rows, items, decl, failed, typeMod) ==
    IF ~IdentPathsResolve(row, items, typeMod) THEN "C17/IdentPathDoesNotResolve"
    ELSE IF row.kind \notin NamedKinds THEN "ok"
    ELSE IF Cardinality(TopItems(items, row.name)) = 0 THEN "C17/NameDoesNotResolve"
    ELSE IF row.ident # ExpectedIdent(typeMod, row.name) THEN "C17/IdentNotInConfiguredModule"
    ELSE LET item == items[CHOOSE i \in TopItems(items, row.name) : TRUE] IN
         IF row.kind = "struct" /\ ~StructAgrees(row, item, rows) THEN "C17/StructPropertiesDiffer"
         ELSE IF row.kind = "enum" /\ ~EnumAgrees(row, item) THEN "C17/EnumVariantsDiffer"
         ELSE IF row.kind = "newtype" /\ ~NewtypeAgrees(row, item, rows) THEN "C17/NewtypeInnerDiffers"
         ELSE IF (row.builder # "") # (BuilderItems(items, row.name) # {}) THEN "C17/BuilderMismatch"
         ELSE IF \E x \in {"FromStr", "Display", "Default"} :
                   row.impls[x] /\ BoundDeclared(decl, row.name, "has_impl:" \o x)
                   /\ ~BoundHolds(decl, failed, row.name, "has_impl:" \o x)
              THEN "C17/HasImplButNotImplemented"
         ELSE "ok"

C17_Bad(rows, items, decl, failed, typeMod) ==
    { i \in DOMAIN rows : C17_RowDiag(rows[i], rows, items, decl, failed, typeMod) # "ok" }

(* every external crate whose paths appear in the output has its flag set *)
C17_FlagDiag(mentions, uses) ==
    IF \E c \in {"chrono", "uuid", "serde_json", "regress"} : mentions[c] /\ ~uses[c]
    THEN "C17/UsesFlagMissing" ELSE "ok"
=============================================================================
