-------------------------- MODULE ContractSettings --------------------------
(***************************************************************************)
(* L1 contract for C14, evaluated on the item inventory of a case whose    *)
(* document uses the target definition Tgt and the conversion schema       *)
(* {type: number} through every use-site kind (MC_C14!Hub).                *)
(*   field.paths = every type path occurring in the field's type           *)
(***************************************************************************)
EXTENDS Sequences, FiniteSets, Integers, TLC

Range(q) == { q[i] : i \in DOMAIN q }
Top(items) == { i \in DOMAIN items : items[i].mod = "" /\ items[i].kind \in {"struct", "enum"} }
ItemsNamed(items, n) == { i \in Top(items) : items[i].name = n }
FieldsOf(items, n) == UNION { Range(items[i].fields) : i \in ItemsNamed(items, n) }
Field(items, n, f) == CHOOSE x \in FieldsOf(items, n) : x.name = f
HasField(items, n, f) == \E x \in FieldsOf(items, n) : x.name = f
AllFields(items) == UNION { Range(items[i].fields) : i \in Top(items) }
                    \cup UNION { UNION { Range(items[i].variants[j].fields) : j \in DOMAIN items[i].variants } : i \in Top(items) }
VariantFields(items, en, v) == UNION { UNION { Range(items[i].variants[j].fields) :
                                    j \in { k \in DOMAIN items[i].variants : items[i].variants[k].name = v } } :
                                    i \in ItemsNamed(items, en) }
Mentions(f, p) == p \in Range(f.paths)

TgtSites == {"direct", "opt", "nul", "arr", "tup", "mapv"}
NumSites == {"num", "numarr", "numopt", "nummap", "numtup", "numdesc", "numdescarr"}

(* the type that must stand for Tgt at every use *)
UsesEverywhere(items, ty, old) ==
    /\ \A f \in TgtSites : HasField(items, "Hub", f) /\ Mentions(Field(items, "Hub", f), ty)
    /\ \E x \in VariantFields(items, "HubVar", "A") : Mentions(x, ty)
    /\ \E x \in FieldsOf(items, "HubNested") : Mentions(x, ty)
    /\ \A x \in AllFields(items) : ~Mentions(x, old)

ReplaceOK(items) ==
    /\ ItemsNamed(items, "Tgt") = {}
    /\ UsesEverywhere(items, "crate::support::ReplT", "Tgt")
    (* members of an allOf are merged structurally, not referenced *)
    /\ HasField(items, "HubMerged", "q") /\ HasField(items, "HubMerged", "z")
    /\ HasField(items, "Zed", "q") /\ HasField(items, "Zed", "z")
    /\ Mentions(Field(items, "Zuse", "t"), "crate::support::ReplT")
    (* a replacement is named by the identifier of the definition (key "3d-point", identifier X3dPoint) *)
    /\ ItemsNamed(items, "X3dPoint") = {}
    /\ Mentions(Field(items, "Hub", "odd"), "crate::support::ReplT") /\ Mentions(Field(items, "Hub", "oddarr"), "crate::support::ReplT")
    /\ \A x \in AllFields(items) : ~Mentions(x, "X3dPoint")

(* one patch target: new name (or the old one when there is no rename) defined with the extra
   derives, the old name nowhere *)
PatchedDef(items, old, new, derives) ==
    /\ (new # old => ItemsNamed(items, old) = {} /\ \A x \in AllFields(items) : ~Mentions(x, old))
    /\ \E i \in ItemsNamed(items, new) : items[i].kind \in {"struct", "enum"} /\ derives \subseteq Range(items[i].derives)
PatchOK(items) ==
    /\ ItemsNamed(items, "Tgt") = {}
    /\ \E i \in ItemsNamed(items, "Renamed") : {"Eq", "PartialEq"} \subseteq Range(items[i].derives)
    /\ UsesEverywhere(items, "Renamed", "Tgt")
    (* named types of the other kinds: constrained string, typed non-string enum, deny list, alias
       wrapper, string enum *)
    /\ PatchedDef(items, "Code", "CodeR", {"Default"}) /\ Mentions(Field(items, "Holder", "code"), "CodeR")
    /\ PatchedDef(items, "Lvl", "Lvl", {"Default"})
    /\ PatchedDef(items, "NotAb", "NotAb", {"Default"})
    /\ PatchedDef(items, "Labels", "LabelsR", {"Default"}) /\ Mentions(Field(items, "Holder", "labels"), "LabelsR")
    /\ PatchedDef(items, "Col", "ColR", {})

ConvertOK(items) ==
    /\ \A f \in NumSites : HasField(items, "Hub", f) /\ Mentions(Field(items, "Hub", f), "crate::support::Num")
                           /\ ~Mentions(Field(items, "Hub", f), "f64")
    /\ \E x \in VariantFields(items, "HubVar", "N") : Mentions(x, "crate::support::Num")
    (* a conversion is for the schema it names, numeric validation included: the bounded-integer
       conversion applies to byte / bytearr and to no other integer member *)
    /\ Mentions(Field(items, "Hub", "byte"), "crate::support::ReplT") /\ Mentions(Field(items, "Hub", "bytearr"), "crate::support::ReplT")
    /\ ~Mentions(Field(items, "Hub", "otherbound"), "crate::support::ReplT")
    /\ ~Mentions(Field(items, "Hub", "fmap"), "crate::support::ReplT")
    /\ ~Mentions(Field(items, "Other", "n"), "crate::support::ReplT")

DeriveOK(items) == \A i \in Top(items) : "PartialEq" \in Range(items[i].derives)

MapPath(m) == CASE m = "hash" -> "::std::collections::HashMap" [] m = "btree" -> "::std::collections::BTreeMap"
                [] m = "mymap" -> "crate::support::MyMap"
AllMapPaths == {"::std::collections::HashMap", "::std::collections::BTreeMap", "crate::support::MyMap"}
MapOK(items, m) ==
    /\ \A f \in {"mapv", "fmap", "nummap", "keymap", "patmap", "keymapint"} :
          HasField(items, "Hub", f) /\ Mentions(Field(items, "Hub", f), MapPath(m))
    (* only string-to-any maps are exempt: maps with constrained keys are not *)
    /\ \A f \in {"keymap", "patmap", "keymapint"} : ~Mentions(Field(items, "Hub", f), "::serde_json::Map")
    /\ HasField(items, "Other", "m") /\ Mentions(Field(items, "Other", "m"), MapPath(m))
    /\ \A x \in AllFields(items) : \A p \in AllMapPaths \ {MapPath(m)} : ~Mentions(x, p)
    (* string-to-any maps are the documented exception *)
    /\ HasField(items, "Hub", "anymap") /\ Mentions(Field(items, "Hub", "anymap"), "::serde_json::Map")

C14_Syntactic(s, items) ==
    IF s.replace /\ ~ReplaceOK(items) THEN "C14/ReplacementNotAppliedEverywhere"
    ELSE IF s.patch /\ ~PatchOK(items) THEN "C14/PatchNotAppliedEverywhere"
    ELSE IF s.convert # "none" /\ ~ConvertOK(items) THEN "C14/ConversionNotAppliedEverywhere"
    ELSE IF s.derive /\ ~DeriveOK(items) THEN "C14/GlobalDeriveMissing"
    ELSE IF ~MapOK(items, s.map) THEN "C14/MapTypeNotAppliedEverywhere"
    ELSE "ok"
=============================================================================
