----------------------------- MODULE Trace_C15 -----------------------------
(***************************************************************************)
(* L4: trace validation for C15.  Per case (option vector): one "frontend" *)
(* event per CLI run (output mode) and one for the macro; each is judged   *)
(* by Frontends!Cli_Diag / Macro_Diag.                                     *)
(***************************************************************************)
EXTENDS Frontends, Json, IOUtils

Rec == ndJsonDeserialize(IOEnv.TRACE)
VARIABLES l, nbad, nself, cur
vars == <<l, nbad, nself, cur>>
Init == l = 1 /\ nbad = 0 /\ nself = 0 /\ cur = << >>
IsEvent(k) == l <= Len(Rec) /\ Rec[l].ev = k /\ l' = l + 1
CaseEv == /\ IsEvent("case") /\ cur' = Rec[l] /\ UNCHANGED <<nbad, nself>>

SetOf(q) == { q[i] : i \in DOMAIN q }
Diag(e) ==
    IF e.which = "cli"
    THEN Cli_Diag(cur.invalid = "", e.outmode, SetOf(e.before),
                  [exit |-> e.exit, after |-> SetOf(e.after), stdout_len |-> e.stdout_len, items_equal |-> e.items_equal])
    ELSE Macro_Diag([expanded |-> e.expanded, items_equal |-> e.items_equal])

(* no open finding: the two defects found here (CLI rejecting crate names with digits, the
   macro's map_type option being unusable) are repaired by fix commits, see known_findings.json *)
Known(e, d) == {}

Front == /\ IsEvent("frontend")
         /\ LET e == Rec[l] d == Diag(e) IN
              IF d = "ok" THEN nbad' = nbad
              ELSE /\ nbad' = nbad + 1
                   /\ PrintT(<<"BAD", ToJson([l |-> l, case |-> e.case, prop |-> "C15", diag |-> d, which |-> e.which,
                                              o |-> cur.o, invalid |-> cur.invalid, known |-> Known(e, d), ev |-> e])>>)
         /\ UNCHANGED <<nself, cur>>
Next == CaseEv \/ Front
Spec == Init /\ [][Next]_vars
Finished ==
    /\ PrintT(<<"TRACE-STATS", ToJson([lines |-> Len(Rec), diameter |-> TLCGet("stats").diameter,
                                      distinct |-> TLCGet("stats").distinct,
                                      generated |-> TLCGet("stats").generated])>>)
    /\ TLCGet("stats").diameter = Len(Rec) + 1
AtEnd == l = Len(Rec) + 1 => PrintT(<<"TRACE-END", ToJson([nbad |-> nbad, nself |-> nself, l |-> l])>>)
=============================================================================
