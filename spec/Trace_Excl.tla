----------------------------- MODULE Trace_Excl -----------------------------
(***************************************************************************)
(* L4: conformance of the implementation model Exclusive to the code.      *)
(* Each `excl` event records, for one list of anyOf branches, what the     *)
(* real all_mutually_exclusive answered (hook verif_all_mutually_exclusive;*)
(* "panic" when it panicked) and how convert_any_of rendered               *)
(* T = { anyOf: branches }.  The model's answer is recomputed here from    *)
(* the echoed branches; a line DIVERGE is printed for every event the      *)
(* model does not explain.  Divergences are reported, not judged: the      *)
(* model describes the pinned analysis and is used to delimit a recorded   *)
(* finding (Trace_C02!Known), so on the pinned tree there must be none.    *)
(***************************************************************************)
EXTENDS Exclusive, Json, IOUtils

Rec == ndJsonDeserialize(IOEnv.TRACE)
VARIABLES l, nbad, nself
vars == <<l, nbad, nself>>
Init == l = 1 /\ nbad = 0 /\ nself = 0

RouteExplained(model, seen) ==
    CASE model = "flattened" -> seen \in {"flattened", "panic", "rejected"}
      [] model = "oneof"     -> seen # "flattened"
      [] model = "option"    -> seen # "flattened"
      [] OTHER               -> seen \in {"panic", "rejected"}

Step == /\ l <= Len(Rec) /\ Rec[l].ev = "excl" /\ l' = l + 1
        /\ LET e == Rec[l]
               m == AllX(e.subs, e.defs)
               r == AnyOfRoute(e.subs, e.defs)
               (* a single branch is never analysed by maybe_option's caller differently: AllX of one is "yes" *)
               ok == (m = e.res) /\ RouteExplained(r, e.route)
           IN IF ok THEN nself' = nself
              ELSE /\ nself' = nself + 1
                   /\ PrintT(<<"DIVERGE", ToJson([l |-> l, case |-> e.case, model |-> m, code |-> e.res,
                                                  model_route |-> r, code_route |-> e.route, subs |-> e.subs])>>)
        /\ UNCHANGED nbad
Next == Step
Spec == Init /\ [][Next]_vars
Finished ==
    /\ PrintT(<<"TRACE-STATS", ToJson([lines |-> Len(Rec), diameter |-> TLCGet("stats").diameter,
                                      distinct |-> TLCGet("stats").distinct,
                                      generated |-> TLCGet("stats").generated])>>)
    /\ TLCGet("stats").diameter = Len(Rec) + 1
AtEnd == l = Len(Rec) + 1 => PrintT(<<"TRACE-END", ToJson([nbad |-> nbad, nself |-> nself, l |-> l])>>)
=============================================================================
