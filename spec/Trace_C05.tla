----------------------------- MODULE Trace_C05 -----------------------------
(***************************************************************************)
(* L4: trace validation for C05 (constraints cannot be bypassed) and C11   *)
(* (string conversions agree with the wire format).                        *)
(*   deser events on documents of the enforced universe: an instance that  *)
(*     Schema!Valid rejects must not deserialise                           *)
(*   str events: every string conversion the type offers (FromStr,         *)
(*     TryFrom<&str>, TryFrom<String>, TryFrom<&String>) succeeds exactly  *)
(*     when deserialising the JSON string succeeds, with the same value;   *)
(*     Display prints exactly the serialised string                        *)
(*   render events: a newtype with a validating Deserialize impl has a     *)
(*     private field and no From<inner> impl                               *)
(***************************************************************************)
EXTENDS ContractSerde, Json, IOUtils

Rec == ndJsonDeserialize(IOEnv.TRACE)
VARIABLES l, nbad, nself, cur, items
vars == <<l, nbad, nself, cur, items>>
Init == l = 1 /\ nbad = 0 /\ nself = 0 /\ cur = << >> /\ items = << >>
IsEvent(k) == l <= Len(Rec) /\ Rec[l].ev = k /\ l' = l + 1

T == cur.defs["T"]
ProbeOf(e) == cur.probes[e.probe]

CaseEv == /\ IsEvent("case") /\ cur' = Rec[l] /\ items' = << >> /\ UNCHANGED <<nbad, nself>>
Skip == /\ (IsEvent("ingest") \/ IsEvent("compile") \/ IsEvent("bounds") \/ IsEvent("probe_na")
            \/ IsEvent("endcase") \/ IsEvent("intro") \/ IsEvent("bounds_decl") \/ IsEvent("probe_panic"))
        /\ UNCHANGED <<nbad, nself, cur, items>>

(* ---- inventory: constrained newtypes ------------------------------------ *)
ManualDeser(its, name) == \E i \in DOMAIN its : its[i].kind = "impl" /\ its[i].mod = "" /\ its[i].for_ = name
                                                /\ its[i].trait_ = "::serde::Deserialize<'de>"
ConstrainedNewtypes(its) == { i \in DOMAIN its : its[i].kind = "struct" /\ its[i].mod = "" /\ its[i].shape = "tuple"
                                                  /\ Len(its[i].fields) = 1 /\ ManualDeser(its, its[i].name) }
Bypass(its, i) ==
    \/ its[i].fields[1].vis = "pub"
    \/ \E j \in DOMAIN its : its[j].kind = "impl" /\ its[j].mod = "" /\ its[j].for_ = its[i].name
                             /\ its[j].trait_ = "::std::convert::From<" \o its[i].fields[1].ty \o ">"
Render == /\ IsEvent("render")
          /\ LET e == Rec[l]
                 bad == IF e.res = "ok" /\ cur.enforced THEN { i \in ConstrainedNewtypes(e.items) : Bypass(e.items, i) } ELSE {}
             IN /\ \A i \in bad : PrintT(<<"BAD", ToJson([l |-> l, case |-> e.case, prop |-> "C05",
                                          diag |-> "C05/PublicConstructorOnConstrainedNewtype", fam |-> cur.fam, id |-> cur.id,
                                          ty |-> e.items[i].name, known |-> {}])>>)
                /\ nbad' = nbad + Cardinality(bad)
                /\ items' = e.items
          /\ UNCHANGED <<nself, cur>>

(* ---- known findings ------------------------------------------------------ *)
(* generation-time filtering of string enum values by byte length
   (util.rs:847-859) against the schema's count in scalar values: a value
   whose byte length satisfies minLength while its scalar count does not *)
MultiByte(cs) == \E i \in DOMAIN cs : ByteLen(cs[i]) > 1
KnownDeser(e, d) ==
    LET v == ProbeOf(e).val IN
    { k \in {"C05-enum-filter-counts-bytes", "C05-adjacent-variant-closedness-dropped"} :
        /\ d = "C05/InvalidInstanceAccepted"
        /\ CASE k = "C05-enum-filter-counts-bytes" ->
                /\ SHas(T, "enum") /\ SHas(T, "minLength") /\ v.t = "str" /\ MultiByte(v.c)
                /\ StrBytes(v.c) >= T.minLength /\ Len(v.c) < T.minLength
                /\ \E i \in DOMAIN T.enum : JEq(T.enum[i], v)
             [] k = "C05-adjacent-variant-closedness-dropped" ->
                (* every branch is a closed object over a tag and at most a content member;
                   without its undeclared members the instance is valid *)
                /\ SHas(T, "oneOf") /\ v.t = "obj"
                /\ \A i \in DOMAIN T.oneOf : ClosedObj(T.oneOf[i]) /\ SHas(T.oneOf[i], "properties")
                       /\ Cardinality(DOMAIN T.oneOf[i].properties) <= 2
                /\ \E i \in DOMAIN T.oneOf :
                      LET B == T.oneOf[i]
                          keep == SelectSeq([j \in DOMAIN v.k |-> j], LAMBDA j : v.k[j] \in DOMAIN B.properties)
                          w == JObj([j \in DOMAIN keep |-> v.k[keep[j]]], [j \in DOMAIN keep |-> v.v[keep[j]]])
                      IN Len(keep) < Len(v.k) /\ Valid(B, w, cur.defs)
                /\ \E i \in DOMAIN items : items[i].kind = "enum" /\ items[i].name = "T"
                      /\ \E j \in DOMAIN items[i].serde : items[i].serde[j] = "content=\"c\"" }
KnownStr(e, d) ==
    { k \in {"C11-datetime-display-differs"} :
        /\ d = "C11/DisplayDiffersFromSerialization"
        /\ SHas(T, "format") /\ T.format = "date-time" }

Deser == /\ IsEvent("deser")
         /\ LET e == Rec[l] v == ProbeOf(e).val
                d == IF cur.enforced /\ C05_Applies(T, v, cur.defs) /\ e.ok THEN "C05/InvalidInstanceAccepted" ELSE "ok"
            IN IF d = "ok" THEN nbad' = nbad
               ELSE /\ nbad' = nbad + 1
                    /\ PrintT(<<"BAD", ToJson([l |-> l, case |-> e.case, probe |-> e.probe, prop |-> "C05", diag |-> d,
                                               fam |-> cur.fam, id |-> cur.id, val |-> v, known |-> KnownDeser(e, d)])>>)
         /\ UNCHANGED <<nself, cur, items>>

ConvAgrees(c, dok) == c.have => (c.ok = dok /\ c.same)
ConvsAgree(e) == /\ ConvAgrees(e.fromstr, e.deser_ok) /\ ConvAgrees(e.tf_str, e.deser_ok)
                 /\ ConvAgrees(e.tf_string, e.deser_ok) /\ ConvAgrees(e.tf_refstring, e.deser_ok)
DisplayAgrees(e) == e.display.applies => (e.display.ser_is_str /\ e.display.text = e.display.ser)

Str == /\ IsEvent("str")
       /\ LET e == Rec[l]
              d5 == IF cur.enforced /\ ~ConvsAgree(e) THEN "C05/ConversionsDisagree" ELSE "ok"
              d11 == IF ~cur.stringlike THEN "ok"
                     ELSE IF ~ConvsAgree(e) THEN "C11/ParseDisagreesWithDeserialize"
                     ELSE IF ~DisplayAgrees(e) THEN "C11/DisplayDiffersFromSerialization" ELSE "ok"
          IN /\ (d5 # "ok" => PrintT(<<"BAD", ToJson([l |-> l, case |-> e.case, probe |-> e.probe, prop |-> "C05", diag |-> d5,
                                         fam |-> cur.fam, id |-> cur.id, s |-> e.s, known |-> {}, ev |-> e])>>))
             /\ (d11 # "ok" => PrintT(<<"BAD", ToJson([l |-> l, case |-> e.case, probe |-> e.probe, prop |-> "C11", diag |-> d11,
                                         fam |-> cur.fam, id |-> cur.id, s |-> e.s, known |-> KnownStr(e, d11), ev |-> e])>>))
             /\ nbad' = nbad + (IF d5 # "ok" THEN 1 ELSE 0) + (IF d11 # "ok" THEN 1 ELSE 0)
       /\ UNCHANGED <<nself, cur, items>>

Next == CaseEv \/ Skip \/ Render \/ Deser \/ Str
Spec == Init /\ [][Next]_vars
Finished ==
    /\ PrintT(<<"TRACE-STATS", ToJson([lines |-> Len(Rec), diameter |-> TLCGet("stats").diameter,
                                      distinct |-> TLCGet("stats").distinct,
                                      generated |-> TLCGet("stats").generated])>>)
    /\ TLCGet("stats").diameter = Len(Rec) + 1
AtEnd == l = Len(Rec) + 1 => PrintT(<<"TRACE-END", ToJson([nbad |-> nbad, nself |-> nself, l |-> l])>>)
=============================================================================
