----------------------------- MODULE Trace_C05 -----------------------------
(***************************************************************************)
(* L4: trace validation for C05 (constraints cannot be bypassed) and C11   *)
(* (string conversions agree with the wire format).                        *)
(*   deser events on documents of the enforced universe: an instance that  *)
(*     Schema!Valid rejects must not deserialise                           *)
(*   str events: every string conversion the type offers (FromStr,         *)
(*     TryFrom<&str>, TryFrom<String>, TryFrom<&String>) succeeds exactly  *)
(*     when deserialising the JSON string succeeds, with the same value;   *)
(*     Display prints exactly the serialised string                        *)
(*   render events: a newtype with a validating Deserialize impl has a     *)
(*     private field and no From<inner> impl                               *)
(***************************************************************************)
EXTENDS ContractSerde, Json, IOUtils

Rec == ndJsonDeserialize(IOEnv.TRACE)
VARIABLES l, nbad, nself, cur, items
vars == <<l, nbad, nself, cur, items>>
Init == l = 1 /\ nbad = 0 /\ nself = 0 /\ cur = << >> /\ items = << >>
IsEvent(k) == l <= Len(Rec) /\ Rec[l].ev = k /\ l' = l + 1

T == cur.defs["T"]
ProbeOf(e) == cur.probes[e.probe]

CaseEv == /\ IsEvent("case") /\ cur' = Rec[l] /\ items' = << >> /\ UNCHANGED <<nbad, nself>>
Skip == /\ (IsEvent("ingest") \/ IsEvent("bounds") \/ IsEvent("probe_na")
            \/ IsEvent("endcase") \/ IsEvent("intro") \/ IsEvent("bounds_decl") \/ IsEvent("probe_panic"))
        /\ UNCHANGED <<nbad, nself, cur, items>>

(* ---- inventory: constrained newtypes ------------------------------------ *)
ManualDeser(its, name) == \E i \in DOMAIN its : its[i].kind = "impl" /\ its[i].mod = "" /\ its[i].for_ = name
                                                /\ its[i].trait_ = "::serde::Deserialize<'de>"
ConstrainedNewtypes(its) == { i \in DOMAIN its : its[i].kind = "struct" /\ its[i].mod = "" /\ its[i].shape = "tuple"
                                                  /\ Len(its[i].fields) = 1 /\ ManualDeser(its, its[i].name) }
Bypass(its, i) ==
    \/ its[i].fields[1].vis = "pub"
    \/ \E j \in DOMAIN its : its[j].kind = "impl" /\ its[j].mod = "" /\ its[j].for_ = its[i].name
                             /\ its[j].trait_ = "::std::convert::From<" \o its[i].fields[1].ty \o ">"
(* the inventory is judged once the module is known to compile: an output that rustc rejects
   (e.g. two items of one name) is C01's business and its items cannot be told apart by name *)
Render == /\ IsEvent("render") /\ items' = Rec[l].items /\ UNCHANGED <<nbad, nself, cur>>
Compile == /\ IsEvent("compile")
           /\ LET e == Rec[l]
                  bad == IF e.res = "ok" /\ cur.enforced THEN { i \in ConstrainedNewtypes(items) : Bypass(items, i) } ELSE {}
              IN /\ \A i \in bad : PrintT(<<"BAD", ToJson([l |-> l, case |-> e.case, prop |-> "C05",
                                           diag |-> "C05/PublicConstructorOnConstrainedNewtype", fam |-> cur.fam, id |-> cur.id,
                                           ty |-> items[i].name, known |-> {}])>>)
                 /\ nbad' = nbad + Cardinality(bad)
           /\ UNCHANGED <<nself, cur, items>>

(* ---- known findings ------------------------------------------------------ *)
(* generation-time filtering of string enum values by byte length
   (util.rs:847-859) against the schema's count in scalar values: a value
   whose byte length satisfies minLength while its scalar count does not *)
(* the adjacent shape, and the value with the undeclared members removed wherever a value sits
   at a schema of that shape (followed through references and declared properties) *)
DerefS(S) == IF SHas(S, "ref") /\ S.ref \in DOMAIN cur.defs THEN cur.defs[S.ref] ELSE S
AdjShape(S) == /\ SHas(S, "oneOf")
               /\ \A i \in DOMAIN S.oneOf : ClosedObj(S.oneOf[i]) /\ SHas(S.oneOf[i], "properties")
                                              /\ Cardinality(DOMAIN S.oneOf[i].properties) <= 2
KeepOnly(w, B) ==
    LET keep == SelectSeq([j \in DOMAIN w.k |-> j], LAMBDA j : w.k[j] \in DOMAIN B.properties)
    IN JObj([j \in DOMAIN keep |-> w.k[keep[j]]], [j \in DOMAIN keep |-> w.v[keep[j]]])
RECURSIVE StripAdj(_, _, _)
StripAdj(S0, w, n) ==
    LET S == DerefS(S0) IN
    IF n = 0 \/ w.t # "obj" THEN w
    ELSE IF AdjShape(S) THEN
         (IF \E i \in DOMAIN S.oneOf : Len(KeepOnly(w, S.oneOf[i]).k) < Len(w.k) /\ Valid(S.oneOf[i], KeepOnly(w, S.oneOf[i]), cur.defs)
          THEN KeepOnly(w, S.oneOf[CHOOSE i \in DOMAIN S.oneOf :
                              Len(KeepOnly(w, S.oneOf[i]).k) < Len(w.k) /\ Valid(S.oneOf[i], KeepOnly(w, S.oneOf[i]), cur.defs)])
          ELSE w)
    ELSE IF SHas(S, "properties") THEN
         JObj(w.k, [j \in DOMAIN w.k |-> IF w.k[j] \in DOMAIN S.properties
                                          THEN StripAdj(S.properties[w.k[j]], w.v[j], n - 1) ELSE w.v[j]])
    ELSE w

MultiByte(cs) == \E i \in DOMAIN cs : ByteLen(cs[i]) > 1
KnownDeser(e, d) ==
    LET v == ProbeOf(e).val IN
    { k \in {"C05-enum-filter-counts-bytes", "C05-adjacent-variant-closedness-dropped"} :
        /\ d = "C05/InvalidInstanceAccepted"
        /\ CASE k = "C05-enum-filter-counts-bytes" ->
                /\ SHas(T, "enum") /\ SHas(T, "minLength") /\ v.t = "str" /\ MultiByte(v.c)
                /\ StrBytes(v.c) >= T.minLength /\ Len(v.c) < T.minLength
                /\ \E i \in DOMAIN T.enum : JEq(T.enum[i], v)
             [] k = "C05-adjacent-variant-closedness-dropped" ->
                (* somewhere along the declared properties of the instance (the root included) sits a
                   oneOf all of whose branches are closed objects over a tag and at most a content
                   member; the instance is valid once the undeclared members of the values at those
                   positions are removed, and the output has an adjacently tagged enum *)
                /\ ~JEq(StripAdj(T, v, 4), v) /\ Valid(T, StripAdj(T, v, 4), cur.defs)
                /\ \E i \in DOMAIN items : items[i].kind = "enum"
                      /\ \E j \in DOMAIN items[i].serde : items[i].serde[j] = "content=\"c\"" }
KnownStr(e, d) ==
    { k \in {"C11-datetime-display-differs"} :
        /\ d = "C11/DisplayDiffersFromSerialization"
        /\ SHas(T, "format") /\ T.format = "date-time" }

Deser == /\ IsEvent("deser")
         /\ LET e == Rec[l] v == ProbeOf(e).val
                d == IF cur.enforced /\ C05_Applies(T, v, cur.defs) /\ e.ok THEN "C05/InvalidInstanceAccepted" ELSE "ok"
            IN IF d = "ok" THEN nbad' = nbad
               ELSE /\ nbad' = nbad + 1
                    /\ PrintT(<<"BAD", ToJson([l |-> l, case |-> e.case, probe |-> e.probe, prop |-> "C05", diag |-> d,
                                               fam |-> cur.fam, id |-> cur.id, val |-> v, known |-> KnownDeser(e, d)])>>)
         /\ UNCHANGED <<nself, cur, items>>

ConvAgrees(c, dok) == c.have => (c.ok = dok /\ c.same)
ConvsAgree(e) == /\ ConvAgrees(e.fromstr, e.deser_ok) /\ ConvAgrees(e.tf_str, e.deser_ok)
                 /\ ConvAgrees(e.tf_string, e.deser_ok) /\ ConvAgrees(e.tf_refstring, e.deser_ok)
DisplayAgrees(e) == e.display.applies => (e.display.ser_is_str /\ e.display.text = e.display.ser)

Str == /\ IsEvent("str")
       /\ LET e == Rec[l]
              d5 == IF cur.enforced /\ ~ConvsAgree(e) THEN "C05/ConversionsDisagree" ELSE "ok"
              d11 == IF ~cur.stringlike THEN "ok"
                     ELSE IF ~ConvsAgree(e) THEN "C11/ParseDisagreesWithDeserialize"
                     ELSE IF ~DisplayAgrees(e) THEN "C11/DisplayDiffersFromSerialization" ELSE "ok"
          IN /\ (d5 # "ok" => PrintT(<<"BAD", ToJson([l |-> l, case |-> e.case, probe |-> e.probe, prop |-> "C05", diag |-> d5,
                                         fam |-> cur.fam, id |-> cur.id, s |-> e.s, known |-> {}, ev |-> e])>>))
             /\ (d11 # "ok" => PrintT(<<"BAD", ToJson([l |-> l, case |-> e.case, probe |-> e.probe, prop |-> "C11", diag |-> d11,
                                         fam |-> cur.fam, id |-> cur.id, s |-> e.s, known |-> KnownStr(e, d11), ev |-> e])>>))
             /\ nbad' = nbad + (IF d5 # "ok" THEN 1 ELSE 0) + (IF d11 # "ok" THEN 1 ELSE 0)
       /\ UNCHANGED <<nself, cur, items>>

Next == CaseEv \/ Skip \/ Render \/ Compile \/ Deser \/ Str
Spec == Init /\ [][Next]_vars
Finished ==
    /\ PrintT(<<"TRACE-STATS", ToJson([lines |-> Len(Rec), diameter |-> TLCGet("stats").diameter,
                                      distinct |-> TLCGet("stats").distinct,
                                      generated |-> TLCGet("stats").generated])>>)
    /\ TLCGet("stats").diameter = Len(Rec) + 1
AtEnd == l = Len(Rec) + 1 => PrintT(<<"TRACE-END", ToJson([nbad |-> nbad, nself |-> nself, l |-> l])>>)
=============================================================================
