----------------------------- MODULE Trace_C14 -----------------------------
(***************************************************************************)
(* L4: trace validation for C14.  Per case: the syntactic obligations of   *)
(* ContractSettings on the render inventory; and the behavioural half: the *)
(* acceptance / round-trip vector of the unaffected types (Other, Col)     *)
(* must equal the vector recorded for the baseline case (default settings, *)
(* first in the trace).                                                    *)
(***************************************************************************)
EXTENDS ContractSettings, JsonVal, Json, IOUtils

Rec == ndJsonDeserialize(IOEnv.TRACE)
VARIABLES l, nbad, nself, cur, vec, base, items, stage
vars == <<l, nbad, nself, cur, vec, base, items, stage>>
Init == l = 1 /\ nbad = 0 /\ nself = 0 /\ cur = << >> /\ vec = << >> /\ base = << >> /\ items = << >> /\ stage = "none"
IsEvent(k) == l <= Len(Rec) /\ Rec[l].ev = k /\ l' = l + 1

CaseEv == /\ IsEvent("case") /\ cur' = Rec[l] /\ vec' = << >> /\ items' = << >> /\ stage' = "none"
          /\ UNCHANGED <<nbad, nself, base>>
Render == /\ IsEvent("render") /\ items' = Rec[l].items /\ UNCHANGED <<nbad, nself, cur, vec, base, stage>>
Compile == /\ IsEvent("compile") /\ stage' = Rec[l].res /\ UNCHANGED <<nbad, nself, cur, vec, base, items>>
Skip == /\ (IsEvent("ingest") \/ IsEvent("bounds") \/ IsEvent("probe_na") \/ IsEvent("intro") \/ IsEvent("bounds_decl"))
        /\ UNCHANGED <<nbad, nself, cur, vec, base, items, stage>>
Deser == /\ IsEvent("deser")
         /\ vec' = (Rec[l].probe :> [ok |-> Rec[l].ok, out |-> Rec[l].out]) @@ vec
         /\ UNCHANGED <<nbad, nself, cur, base, items, stage>>
Panic == /\ IsEvent("probe_panic")
         /\ vec' = (Rec[l].probe :> [ok |-> FALSE, out |-> [t |-> "panic"]]) @@ vec
         /\ UNCHANGED <<nbad, nself, cur, base, items, stage>>

Differs == { p \in DOMAIN base : p \notin DOMAIN vec \/ vec[p].ok # base[p].ok
                                  \/ (vec[p].ok /\ ~JEq(vec[p].out, base[p].out)) }
Syn == IF stage = "ok" THEN C14_Syntactic(cur.s, items) ELSE "C14/SettingsBreakCompilation"
Beh == IF stage = "ok" /\ ~cur.baseline /\ DOMAIN base # {} /\ Differs # {} THEN "C14/UnaffectedTypeBehaviourChanged" ELSE "ok"

Known(d) == {}
Report(e, d, extra) == PrintT(<<"BAD", ToJson([l |-> l, case |-> e.case, prop |-> "C14", diag |-> d, s |-> cur.s,
                                               known |-> Known(d), extra |-> extra])>>)
End == /\ IsEvent("endcase")
       /\ (Syn # "ok" => Report(Rec[l], Syn, << >>))
       /\ (Beh # "ok" => Report(Rec[l], Beh, [probes |-> Differs]))
       /\ nbad' = nbad + (IF Syn # "ok" THEN 1 ELSE 0) + (IF Beh # "ok" THEN 1 ELSE 0)
       /\ base' = IF cur.baseline /\ stage = "ok" THEN vec ELSE base
       /\ UNCHANGED <<nself, cur, vec, items, stage>>

Next == CaseEv \/ Render \/ Compile \/ Skip \/ Deser \/ Panic \/ End
Spec == Init /\ [][Next]_vars
Finished ==
    /\ PrintT(<<"TRACE-STATS", ToJson([lines |-> Len(Rec), diameter |-> TLCGet("stats").diameter,
                                      distinct |-> TLCGet("stats").distinct,
                                      generated |-> TLCGet("stats").generated])>>)
    /\ TLCGet("stats").diameter = Len(Rec) + 1
AtEnd == l = Len(Rec) + 1 => PrintT(<<"TRACE-END", ToJson([nbad |-> nbad, nself |-> nself, l |-> l])>>)
=============================================================================
