------------------------------- MODULE Semver -------------------------------
(***************************************************************************)
(* L0 reference semantics: Cargo version requirements, written from the    *)
(* Cargo documentation ("Specifying dependencies") as interval semantics;  *)
(* cross-checked on every run against the `semver` crate (oracle           *)
(* self-check, DESIGN 3.5).                                                *)
(*                                                                         *)
(* Version     == [M, m, p : Nat, pre : {"", "alpha", "beta"}]             *)
(* Comparator  == [op, M : Nat, m, p : Nat \cup {-1}, pre]   (-1 = absent) *)
(* Requirement == Seq(Comparator)   (comma = conjunction, <<>> = "*")      *)
(***************************************************************************)
EXTENDS Integers, Sequences

PreRank(x) == CASE x = "alpha" -> 0 [] x = "beta" -> 1 [] x = "" -> 2

V(M, m, p, pre) == [M |-> M, m |-> m, p |-> p, pre |-> pre]

VLt(a, b) == \/ a.M < b.M
             \/ a.M = b.M /\ a.m < b.m
             \/ a.M = b.M /\ a.m = b.m /\ a.p < b.p
             \/ a.M = b.M /\ a.m = b.m /\ a.p = b.p /\ PreRank(a.pre) < PreRank(b.pre)
VEq(a, b) == a.M = b.M /\ a.m = b.m /\ a.p = b.p /\ a.pre = b.pre
VLe(a, b) == VLt(a, b) \/ VEq(a, b)

HasMinor(c) == c.m # -1
HasPatch(c) == c.p # -1
Lo(c) == V(c.M, IF HasMinor(c) THEN c.m ELSE 0, IF HasPatch(c) THEN c.p ELSE 0, c.pre)
NextMajor(c) == V(c.M + 1, 0, 0, "")
NextMinor(c) == V(c.M, c.m + 1, 0, "")
NextPatch(c) == V(c.M, c.m, c.p + 1, "")
(* the version just above every version matching the partial version c *)
AboveAll(c) == IF ~HasMinor(c) THEN NextMajor(c)
               ELSE IF ~HasPatch(c) THEN NextMinor(c) ELSE NextPatch(c)
Within(c, v) == VLe(Lo(c), v) /\ VLt(v, AboveAll(c))

(* one comparator, ignoring the pre-release opt-in rule *)
CMatch(c, v) ==
  CASE c.op = "eq"    -> IF HasPatch(c) THEN VEq(v, Lo(c)) ELSE Within(c, v)
    [] c.op = "wild"  -> Within(c, v)
    [] c.op = "gt"    -> IF HasPatch(c) THEN VLt(Lo(c), v) ELSE VLe(AboveAll(c), v)
    [] c.op = "ge"    -> VLe(Lo(c), v)
    [] c.op = "lt"    -> VLt(v, Lo(c))
    [] c.op = "le"    -> IF HasPatch(c) THEN VLe(v, Lo(c)) ELSE VLt(v, AboveAll(c))
    [] c.op = "tilde" -> VLe(Lo(c), v) /\
                         VLt(v, IF HasMinor(c) THEN NextMinor(c) ELSE NextMajor(c))
    [] c.op = "caret" ->
         VLe(Lo(c), v) /\
         VLt(v, IF c.M > 0 \/ ~HasMinor(c) THEN NextMajor(c)
                ELSE IF c.m > 0 \/ ~HasPatch(c) THEN NextMinor(c)
                ELSE NextPatch(c))

(* "Version requirements exclude pre-release versions unless specifically
   asked for": a pre-release version matches only if some comparator names
   the same major.minor.patch with a pre-release tag. *)
PreOptIn(req, v) ==
    v.pre = "" \/ \E i \in DOMAIN req :
        /\ HasMinor(req[i]) /\ HasPatch(req[i])
        /\ req[i].M = v.M /\ req[i].m = v.m /\ req[i].p = v.p /\ req[i].pre # ""

Matches(req, v) == (\A i \in DOMAIN req : CMatch(req[i], v)) /\ PreOptIn(req, v)
=============================================================================
