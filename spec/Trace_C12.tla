----------------------------- MODULE Trace_C12 -----------------------------
(***************************************************************************)
(* L4 / L1: C12 - generated output is a deterministic function of settings *)
(* and schema.  One "gen" event per case: the digest of                    *)
(* to_stream().to_string() for every run (fresh process x document         *)
(* encoding: object key order permuted, whitespace varied) and whether a    *)
(* second to_stream() of the same type space returned the same tokens.      *)
(* Contract: all digests of a case are equal; re-rendering is idempotent.   *)
(***************************************************************************)
EXTENDS Sequences, FiniteSets, Integers, TLC, Json, IOUtils

Rec == ndJsonDeserialize(IOEnv.TRACE)
VARIABLES l, nbad, nself
vars == <<l, nbad, nself>>
Init == l = 1 /\ nbad = 0 /\ nself = 0
IsEvent(k) == l <= Len(Rec) /\ Rec[l].ev = k /\ l' = l + 1

Hashes(e) == { e.runs[i].hash : i \in DOMAIN e.runs }
Diag(e) == IF Cardinality(Hashes(e)) > 1 THEN "C12/OutputDependsOnRunOrEncoding"
           ELSE IF \E i \in DOMAIN e.runs : ~e.runs[i].rerender_equal THEN "C12/RerenderDiffers"
           ELSE "ok"
Gen == /\ IsEvent("gen")
       /\ LET e == Rec[l] d == Diag(e) IN
            IF d = "ok" THEN nbad' = nbad
            ELSE /\ nbad' = nbad + 1
                 /\ PrintT(<<"BAD", ToJson([l |-> l, case |-> e.case, prop |-> "C12", diag |-> d, known |-> {},
                                            runs |-> e.runs])>>)
       /\ UNCHANGED nself
Next == Gen
Spec == Init /\ [][Next]_vars
Finished ==
    /\ PrintT(<<"TRACE-STATS", ToJson([lines |-> Len(Rec), diameter |-> TLCGet("stats").diameter,
                                      distinct |-> TLCGet("stats").distinct,
                                      generated |-> TLCGet("stats").generated])>>)
    /\ TLCGet("stats").diameter = Len(Rec) + 1
AtEnd == l = Len(Rec) + 1 => PrintT(<<"TRACE-END", ToJson([nbad |-> nbad, nself |-> nself, l |-> l])>>)
=============================================================================
