----------------------------- MODULE Trace_C08 -----------------------------
(***************************************************************************)
(* L4 / L1: C08 - arbitrary JSON names map to valid identifiers and exact  *)
(* wire names.  A case uses one or two names as property names ("prop"),   *)
(* enumerated values ("enum") or definition keys ("def").  Contract, at    *)
(* "endcase": generation fails with an error (Err or panic at add time) OR *)
(*   - the output renders, parses and compiles (identifiers valid Rust,    *)
(*     distinct within their scope: duplicates are diagnosed from the      *)
(*     inventory before rustc is consulted), and                           *)
(*   - every original name is the wire name (serde rename, or the          *)
(*     identifier itself) of exactly one field / variant of T, and         *)
(*   - an instance keyed by the original names round-trips unchanged.      *)
(***************************************************************************)
EXTENDS ContractModule, Json, IOUtils

Rec == ndJsonDeserialize(IOEnv.TRACE)
VARIABLES l, nbad, nself, cur, ingest, rres, items, cres, rt
vars == <<l, nbad, nself, cur, ingest, rres, items, cres, rt>>
Init == /\ l = 1 /\ nbad = 0 /\ nself = 0 /\ cur = << >> /\ ingest = "none" /\ rres = "none" /\ items = << >>
        /\ cres = "none" /\ rt = "none"
IsEvent(k) == l <= Len(Rec) /\ Rec[l].ev = k /\ l' = l + 1

CaseEv == /\ IsEvent("case") /\ cur' = Rec[l] /\ ingest' = "none" /\ rres' = "none" /\ items' = << >>
          /\ cres' = "none" /\ rt' = "none" /\ UNCHANGED <<nbad, nself>>
Ingest == /\ IsEvent("ingest")
          /\ ingest' = IF Rec[l].res = "ok" /\ ingest # "rejected" THEN "ok" ELSE "rejected"
          /\ UNCHANGED <<nbad, nself, cur, rres, items, cres, rt>>
Render == /\ IsEvent("render") /\ rres' = Rec[l].res /\ items' = Rec[l].items
          /\ UNCHANGED <<nbad, nself, cur, ingest, cres, rt>>
Compile == /\ IsEvent("compile") /\ cres' = Rec[l].res /\ UNCHANGED <<nbad, nself, cur, ingest, rres, items, rt>>
Skip == /\ (IsEvent("bounds") \/ IsEvent("probe_na") \/ IsEvent("intro") \/ IsEvent("bounds_decl"))
        /\ UNCHANGED <<nbad, nself, cur, ingest, rres, items, cres, rt>>
Deser == /\ IsEvent("deser")
         /\ rt' = IF rt = "bad" \/ ~(Rec[l].ok /\ Rec[l].rt_equal) THEN "bad" ELSE "good"
         /\ UNCHANGED <<nbad, nself, cur, ingest, rres, items, cres>>
Panic == /\ IsEvent("probe_panic") /\ rt' = "bad" /\ UNCHANGED <<nbad, nself, cur, ingest, rres, items, cres>>

NamesS == { cur.names_str[i] : i \in DOMAIN cur.names_str }
TItems == { i \in DOMAIN items : items[i].mod = "" /\ items[i].name = "T" /\ items[i].kind \in {"struct", "enum"} }
Wires(seq) == { seq[j].wire : j \in DOMAIN seq }
WireOK ==
    CASE cur.ctx \in {"prop", "prop-opt", "prop-optmap", "prop-optanymap", "prop-optvec", "prop-dflt"} -> \E i \in TItems : items[i].kind = "struct" /\ Wires(items[i].fields) = NamesS
                                               /\ Len(items[i].fields) = Cardinality(NamesS)
      [] cur.ctx \in {"enum", "var-int", "var-tuple1", "var-tuple2", "var-struct"} -> \E i \in TItems : items[i].kind = "enum" /\ Wires(items[i].variants) = NamesS
                                               /\ Len(items[i].variants) = Cardinality(NamesS)
      [] OTHER -> TRUE

Diag ==
    IF ingest # "ok" THEN "ok"
    ELSE IF rres # "ok" THEN "C08/AcceptedButOutputNotRust"
    ELSE IF DupFields(items) # {} \/ DupVariants(items) # {} \/ DupItems(items) # {} THEN "C08/IdentifiersNotDistinct"
    ELSE IF ~WireOK THEN "C08/WireNameNotOriginalName"
    ELSE IF cres # "ok" THEN "C08/AcceptedButOutputDoesNotCompile"
    ELSE IF rt = "bad" THEN "C08/NameNotPreservedOnWire"
    ELSE "ok"

(* ---- known findings ------------------------------------------------------
   C08-colliding-names-accepted: two names of one scope that sanitise to the
   same identifier are accepted (no uniqueness step for struct fields and for
   definition keys).  Known only for two-name cases whose duplicate is one of
   the struct's fields / items and the context is prop or def. *)
Known(d) ==
    { k \in {"C08-colliding-names-accepted"} :
        /\ d = "C08/IdentifiersNotDistinct" /\ Len(cur.names) = 2
        /\ cur.ctx \in {"prop", "def", "prop-opt", "prop-optmap", "prop-optanymap", "prop-optvec", "prop-dflt"}
        /\ (cur.ctx # "def" => DupFields(items) # {} /\ DupItems(items) = {})
        /\ (cur.ctx = "def" => DupItems(items) # {}) }

End == /\ IsEvent("endcase")
       /\ (IF Diag = "ok" THEN nbad' = nbad
           ELSE /\ nbad' = nbad + 1
                /\ PrintT(<<"BAD", ToJson([l |-> l, case |-> Rec[l].case, prop |-> "C08", diag |-> Diag, ctx |-> cur.ctx,
                                           names |-> cur.names, known |-> Known(Diag),
                                           dup_fields |-> IF rres = "ok" THEN DupFields(items) ELSE {},
                                           dup_items |-> IF rres = "ok" THEN DupItems(items) ELSE {}])>>))
       /\ UNCHANGED <<nself, cur, ingest, rres, items, cres, rt>>

Next == CaseEv \/ Ingest \/ Render \/ Compile \/ Skip \/ Deser \/ Panic \/ End
Spec == Init /\ [][Next]_vars
Finished ==
    /\ PrintT(<<"TRACE-STATS", ToJson([lines |-> Len(Rec), diameter |-> TLCGet("stats").diameter,
                                      distinct |-> TLCGet("stats").distinct,
                                      generated |-> TLCGet("stats").generated])>>)
    /\ TLCGet("stats").diameter = Len(Rec) + 1
AtEnd == l = Len(Rec) + 1 => PrintT(<<"TRACE-END", ToJson([nbad |-> nbad, nself |-> nself, l |-> l])>>)
=============================================================================
