------------------------- MODULE TypeSpaceContract -------------------------
(***************************************************************************)
(* L1 contract for C16: the type space as a state machine whose only       *)
(* actions are the public ingestion calls.  The state is what a caller can *)
(* know: the projection (name, identifier, structure) of every type        *)
(* identifier handed out so far or reachable from one, the identifier      *)
(* returned for each schema already added, and the set of definitions in   *)
(* the rendered output.                                                    *)
(*                                                                         *)
(* An observation of one call (event "call") carries                       *)
(*   key     : STRING   digest of the call's arguments                     *)
(*   res     : "ok" | "err" | "panic"                                      *)
(*   id      : Nat      identifier returned (0 = none)                     *)
(*   known   : Seq([id, name, ident, kind, sig])  projection, after the    *)
(*             call, of every id returned so far and of everything         *)
(*             reachable from them                                         *)
(*   rres    : "ok" | "panic" | "unparsable"   result of rendering         *)
(*   defs    : Seq([name, h])  definitions in the rendered output (sorted) *)
(*   dups    : Seq(STRING)     names defined more than once                *)
(***************************************************************************)
EXTENDS Sequences, FiniteSets, Integers, TLC

VARIABLES returned,   \* set of projections [id, name, ident, kind, sig] promised to the caller
          added,      \* function: call key -> id returned when that call first succeeded
          defs        \* set of [name, h]: definitions of the last successful rendering

tsVars == <<returned, added, defs>>

Range(s) == { s[i] : i \in DOMAIN s }

TSInit == returned = {} /\ added = << >> /\ defs = {}

(* every promise made so far still holds in the observation *)
IdStable(e) == \A r \in returned : r \in Range(e.known)
StableWitness(e) == { r \in returned : r \notin Range(e.known) }

(* re-adding: same identifier, no new definitions *)
ReAdd(e) == e.key \in DOMAIN added
Idempotent(e) == ReAdd(e) =>
    /\ e.res = "ok"
    /\ e.id = added[e.key]
    /\ (e.rres = "ok" => Range(e.defs) = defs)

NoDupNames(e) == e.rres = "ok" => Len(e.dups) = 0

CallOK(e) == IdStable(e) /\ Idempotent(e) /\ NoDupNames(e)

CallDiag(e) ==
    IF ~IdStable(e) THEN "C16/IdNotStable"
    ELSE IF ~NoDupNames(e) THEN "C16/DuplicateDefinition"
    ELSE IF ~Idempotent(e) THEN "C16/NotIdempotent"
    ELSE "ok"

(* the state change is the same whether or not the observation was
   acceptable (monitor: keep checking the rest of the history) *)
Advance(e) ==
    /\ returned' = Range(e.known)
    /\ added' = IF e.res = "ok" /\ ~ReAdd(e) THEN (e.key :> e.id) @@ added ELSE added
    /\ defs' = IF e.rres = "ok" THEN Range(e.defs) ELSE defs

Call(e) == CallOK(e) /\ Advance(e)
=============================================================================
