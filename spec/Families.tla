------------------------------ MODULE Families ------------------------------
(***************************************************************************)
(* L3 data: the stratified quick universe of schema documents for the      *)
(* faithful fragment (C02/C03), each a record                              *)
(*     [fam |-> family, id |-> STRING, defs |-> [name -> schema]]          *)
(* whose definition "T" is the type under test.  Families follow DESIGN 6  *)
(* C02: F1 scalars x formats, F2 string constraints, F3 enums, F4 nullable *)
(* spellings, F5 objects, F6 maps, F7 arrays/tuples/sets, F8 references    *)
(* and recursion, F9 oneOf in the four serde tagging shapes, F10 exclusive *)
(* anyOf, F11 allOf of objects.                                            *)
(***************************************************************************)
EXTENDS Instances

Doc(fam, id, t) == [fam |-> fam, id |-> id, defs |-> ("T" :> t)]
Doc2(fam, id, t, n2, s2) == [fam |-> fam, id |-> id, defs |-> ("T" :> t) @@ (n2 :> s2)]
Doc3(fam, id, t, n2, s2, n3, s3) == [fam |-> fam, id |-> id, defs |-> ("T" :> t) @@ (n2 :> s2) @@ (n3 :> s3)]

JS(cs) == JStr(cs)
EnumS(vals) == [type |-> "string", enum |-> vals]

IntFormats == <<"int8", "uint8", "int16", "uint16", "int", "int32", "uint", "uint32", "int64", "uint64", "fancy">>
StrFormats == <<"uuid", "date", "date-time", "ip", "ipv4", "ipv6", "hostname">>

F1 ==
    [i \in DOMAIN IntFormats |-> Doc("F1", "int-" \o IntFormats[i], [type |-> "integer", format |-> IntFormats[i]])]
 \o [i \in DOMAIN StrFormats |-> Doc("F1", "str-" \o StrFormats[i], [type |-> "string", format |-> StrFormats[i]])]
 \o << Doc("F1", "integer", SInt), Doc("F1", "number", SNum), Doc("F1", "boolean", SBool), Doc("F1", "null", SNull),
       Doc("F1", "string", SStr),
       Doc("F1", "float", [type |-> "number", format |-> "float"]),
       Doc("F1", "double", [type |-> "number", format |-> "double"]),
       Doc("F1", "int-0-255", [type |-> "integer", minimum |-> JInt(0), maximum |-> JInt(255)]),
       Doc("F1", "int-min1", [type |-> "integer", minimum |-> JInt(1)]),
       Doc("F1", "int-min0", [type |-> "integer", minimum |-> JInt(0)]),
       Doc("F1", "int-max255", [type |-> "integer", maximum |-> JInt(255)]),
       Doc("F1", "int-min-128", [type |-> "integer", minimum |-> JInt(-128)]),
       Doc("F1", "int-u8-min1", [type |-> "integer", format |-> "uint8", minimum |-> JInt(1)]),
       Doc("F1", "int-i8-127", [type |-> "integer", minimum |-> JInt(-128), maximum |-> JInt(127)]),
       Doc("F1", "int-excl", [type |-> "integer", exclusiveMinimum |-> JInt(0), exclusiveMaximum |-> JInt(256)]),
       Doc("F1", "any", << >>), Doc("F1", "true", STrue) >>

(* every recognised integer format with a lower bound of exactly 1 (the NonZero selection) *)
F1nz == [i \in DOMAIN IntFormats |->
           Doc("F1", "nz-" \o IntFormats[i], [type |-> "integer", format |-> IntFormats[i], minimum |-> JInt(1)])]

F2 == << Doc("F2", "min1", [type |-> "string", minLength |-> 1]),
         Doc("F2", "max2", [type |-> "string", maxLength |-> 2]),
         Doc("F2", "min1max3", [type |-> "string", minLength |-> 1, maxLength |-> 3]),
         Doc("F2", "min2max2", [type |-> "string", minLength |-> 2, maxLength |-> 2]),
         Doc("F2", "pat-a", [type |-> "string", pattern |-> "^a+$"]),
         Doc("F2", "pat-az", [type |-> "string", pattern |-> "^[a-z]*$"]),
         Doc("F2", "pat-b", [type |-> "string", pattern |-> "b"]),
         Doc("F2", "pat-ab-max3", [type |-> "string", pattern |-> "^ab", maxLength |-> 3]),
         Doc2("F2", "in-prop", SObj(Props1("s", SRef("N")), {"s"}), "N", [type |-> "string", minLength |-> 1, maxLength |-> 2]) >>

F3 == << Doc("F3", "ab", EnumS(<<JS(<<"a">>), JS(<<"b">>)>>)),
         Doc("F3", "cased", EnumS(<<JS(<<"r","e","d">>), JS(<<"G","r","e","e","n">>), JS(<<"B","L","U","E">>)>>)),
         Doc("F3", "odd", EnumS(<<JS(<<"a","-","b">>), JS(<<"c"," ","d">>), JS(<<"1","x">>), JS(<<"t","y","p","e">>)>>)),
         Doc("F3", "one", EnumS(<<JS(<<"o","n","l","y">>)>>)),
         Doc("F3", "with-empty", EnumS(<<JS(<< >>), JS(<<"a">>)>>)),
         Doc("F3", "with-len", [type |-> "string", enum |-> <<JS(<<"a">>), JS(<<"b","b">>), JS(<<"c","c","c">>)>>, maxLength |-> 2]),
         Doc("F3", "ints", [type |-> "integer", enum |-> <<JInt(1), JInt(2), JInt(3)>>]),
         Doc("F3", "nums", [type |-> "number", enum |-> <<JHalf(3), JInt(2)>>]),
         Doc("F3", "bools", [type |-> "boolean", enum |-> <<JBool(TRUE)>>]),
         Doc("F3", "mixed", [enum |-> <<JInt(1), JS(<<"a">>), JNull>>]),
         Doc("F3", "strs-null", [enum |-> <<JS(<<"a">>), JS(<<"b">>), JNull>>]),
         Doc("F3", "arrs", [type |-> "array", enum |-> <<JArr(<<JInt(1)>>), JArr(<<JInt(2), JInt(3)>>)>>]) >>

F4 == << Doc("F4", "type-pair", [types |-> <<"string", "null">>]),
         Doc("F4", "type-pair-int", [types |-> <<"integer", "null">>]),
         Doc("F4", "oneof-null", SNullable(SStr)),
         Doc2("F4", "anyof-ref-null", SObj(Props1("o", SAnyOf(<<SRef("N"), SNull>>)), {}), "N", SObj(Props1("q", SInt), {"q"})),
         Doc2("F4", "oneof-ref-null", SObj(Props1("o", SNullable(SRef("N"))), {"o"}), "N", SObj(Props1("q", SInt), {"q"})),
         Doc("F4", "enum-null", [types |-> <<"string", "null">>, enum |-> <<JS(<<"a">>), JS(<<"b">>), JNull>>]),
         Doc("F4", "obj-null", [types |-> <<"object", "null">>, properties |-> Props1("x", SInt), required |-> <<"x">>]),
         Doc("F4", "opt-opt", SObj(Props1("o", SNullable(SNullable(SInt))), {})) >>

PAB == Props2("a", SInt, "b", SStr)
F5 == << Doc("F5", "none-req", SObj(PAB, {})),
         Doc("F5", "a-req", SObj(PAB, {"a"})),
         Doc("F5", "ab-req", SObj(PAB, {"a", "b"})),
         Doc("F5", "closed-none", SObjClosed(PAB, {})),
         Doc("F5", "closed-a", SObjClosed(PAB, {"a"})),
         Doc("F5", "closed-ab", SObjClosed(PAB, {"a", "b"})),
         Doc("F5", "addl-true", With(SObj(PAB, {"a"}), "additionalProperties", STrue)),
         Doc("F5", "addl-int", With(SObj(PAB, {"a"}), "additionalProperties", SInt)),
         Doc("F5", "addl-int-noreq", With(SObj(PAB, {}), "additionalProperties", SInt)),
         Doc("F5", "nested", SObj(Props2("in", SObj(Props1("q", SInt), {"q"}), "n", SInt), {"in"})),
         Doc("F5", "nested-opt", SObj(Props1("in", SObj(Props1("q", SStr), {})), {})),
         Doc("F5", "empty", [type |-> "object"]),
         Doc("F5", "odd-names", SObj(Props3("a-b", SInt, "type", SStr, "Cap", SBool), {"a-b"})),
         Doc("F5", "arr-props", SObj(Props2("v", SArr(SInt), "m", SMap(SStr)), {})),
         Doc("F5", "bool-num", SObj(Props3("f", SBool, "x", SNum, "u", [type |-> "integer", format |-> "uint8"]), {"f", "x", "u"})) >>

(* F5d: optional members with a schema default, for each kind of member type a default equal to the
   type's empty / zero value and one that is not: a member present with exactly the default value
   must survive the round trip (only null / [] / {} may be dropped) *)
DP(s, d) == With(s, "default", d)
F5d == << Doc("F5", "dflt-string-empty", SObj(Props2("name", SStr, "nick", DP(SStr, JS(<< >>))), {"name"})),
          Doc("F5", "dflt-string-x", SObj(Props2("name", SStr, "nick", DP(SStr, JS(<<"x">>))), {"name"})),
          Doc("F5", "dflt-int-zero", SObj(Props2("name", SStr, "n", DP(SInt, JInt(0))), {"name"})),
          Doc("F5", "dflt-int-five", SObj(Props2("name", SStr, "n", DP(SInt, JInt(5))), {"name"})),
          Doc("F5", "dflt-bool-false", SObj(Props2("name", SStr, "b", DP(SBool, JBool(FALSE))), {"name"})),
          Doc("F5", "dflt-bool-true", SObj(Props2("name", SStr, "b", DP(SBool, JBool(TRUE))), {"name"})),
          Doc("F5", "dflt-arr-empty", SObj(Props2("name", SStr, "v", DP(SArr(SInt), JArr(<< >>))), {"name"})),
          Doc("F5", "dflt-arr-one", SObj(Props2("name", SStr, "v", DP(SArr(SInt), JArr(<<JInt(1)>>))), {"name"})),
          Doc("F5", "dflt-map-empty", SObj(Props2("name", SStr, "m", DP(SMap(SInt), JObj(<< >>, << >>))), {"name"})),
          Doc("F5", "dflt-enum", SObj(Props2("name", SStr, "c", DP(EnumS(<<JS(<<"r">>), JS(<<"g">>)>>), JS(<<"g">>))), {"name"})),
          Doc("F5", "dflt-nullable-null", SObj(Props2("name", SStr, "o", DP(SNullable(SInt), JNull)), {"name"})) >>

F6 == << Doc("F6", "map-int", SMap(SInt)),
         Doc("F6", "map-str", SMap(SStr)),
         Doc2("F6", "map-ref", SMap(SRef("N")), "N", SObj(Props1("q", SInt), {"q"})),
         Doc("F6", "map-any", SMap(STrue)),
         Doc("F6", "map-in-prop", SObj(Props1("m", SMap(SInt)), {"m"})),
         Doc("F6", "map-of-arr", SMap(SArr(SStr))) >>

F7 == << Doc("F7", "vec-int", SArr(SInt)),
         Doc("F7", "vec-str", SArr(SStr)),
         Doc2("F7", "vec-ref", SArr(SRef("N")), "N", SObj(Props1("q", SInt), {"q"})),
         Doc("F7", "set-str", SSet(SStr)),
         Doc("F7", "set-int", SSet(SInt)),
         Doc("F7", "tuple2", STuple(<<SInt, SStr>>)),
         Doc("F7", "tuple1", STuple(<<SStr>>)),
         Doc("F7", "tuple3", STuple(<<SInt, SBool, SStr>>)),
         Doc("F7", "fixed2", SFixed(SInt, 2)),
         Doc("F7", "vec-any", [type |-> "array"]),
         Doc("F7", "vec-of-vec", SArr(SArr(SInt))),
         Doc("F7", "tuple-in-prop", SObj(Props1("t", STuple(<<SInt, SInt>>)), {"t"})),
         Doc("F7", "vec-opt", SArr(SNullable(SInt))) >>

F8 == << Doc("F8", "self-opt", SObj(Props2("v", SInt, "next", SRef("T")), {"v"})),
         Doc("F8", "self-nullable", SObj(Props2("v", SInt, "next", SNullable(SRef("T"))), {"v", "next"})),
         Doc("F8", "self-vec", SObj(Props2("v", SInt, "kids", SArr(SRef("T"))), {"v"})),
         Doc2("F8", "mutual", SObj(Props1("u", SRef("U")), {}), "U", SObj(Props2("t", SRef("T"), "n", SInt), {"n"})),
         Doc3("F8", "shared-opt", SObj(Props1("x", SRef("B")), {}), "B", SObj(Props1("y", SRef("B")), {}), "C", SObj(Props1("z", SRef("B")), {})),
         Doc2("F8", "shared-opt-first", SObj(Props1("x", SRef("U")), {}), "U", SObj(Props1("y", SRef("U")), {})),
         Doc2("F8", "alias", SRef("N"), "N", SObj(Props1("q", SInt), {"q"})),
         Doc2("F8", "alias-scalar", SRef("N"), "N", [type |-> "string", minLength |-> 1]),
         Doc2("F8", "ref-twice", SObj(Props2("p", SRef("N"), "q", SRef("N")), {"p"}), "N", EnumS(<<JS(<<"x">>), JS(<<"y">>)>>)),
         Doc2("F8", "mutual-tuple", SOneOf(<<SInt, SRef("U")>>), "U", STuple(<<SRef("T"), SRef("T")>>)),
         Doc("F8", "self-map", SObj(Props1("kids", SMap(SRef("T"))), {})),
         (* a cycle entered from outside through a type with two children that both lie on it: which
            edge is boxed depends on the order in which the children are visited *)
         Doc3("F8", "cycle-entered-twice", SObj(Props2("b", SRef("B"), "c", SRef("C")), {"b", "c"}),
              "B", SObj(Props2("c", SRef("C"), "n", SInt), {}), "C", SObj(Props2("b", SRef("B"), "m", SStr), {})) >>

Tag(v) == EnumS(<<JS(v)>>)
ExtVar(name, payload) == SObjClosed(Props1(name, payload), {name})
IntVar(tagv, extra, req, closed) ==
    LET base == SObj(Props1("kind", Tag(tagv)) @@ extra, {"kind"} \cup req)
    IN IF closed THEN With(base, "additionalProperties", SFalse) ELSE base
AdjVar(tagv, payload) == SObjClosed(Props2("t", Tag(tagv), "c", payload), {"t", "c"})
F9 == << (* externally tagged *)
         Doc("F9", "ext-unit-data", SOneOf(<< EnumS(<<JS(<<"U">>), JS(<<"W">>)>>), ExtVar("V", SInt), ExtVar("S", SObj(Props1("q", SStr), {"q"})) >>)),
         Doc("F9", "ext-tuple", SOneOf(<< ExtVar("P", STuple(<<SInt, SInt>>)), ExtVar("N", SNull) >>)),
         Doc2("F9", "ext-ref", SOneOf(<< ExtVar("A", SRef("N")), ExtVar("B", SArr(SRef("N"))) >>), "N", SObj(Props1("q", SInt), {"q"})),
         (* internally tagged *)
         Doc("F9", "int-open", SOneOf(<< IntVar(<<"a">>, Props1("x", SInt), {"x"}, FALSE), IntVar(<<"b">>, Props1("y", SStr), {}, FALSE) >>)),
         Doc("F9", "int-closed", SOneOf(<< IntVar(<<"a">>, Props1("x", SInt), {"x"}, TRUE), IntVar(<<"b">>, Props1("y", SStr), {}, TRUE) >>)),
         Doc("F9", "int-mixed", SOneOf(<< IntVar(<<"a">>, Props1("x", SInt), {"x"}, TRUE), IntVar(<<"b">>, Props1("y", SStr), {}, FALSE) >>)),
         Doc("F9", "int-shared-name", SOneOf(<< IntVar(<<"a">>, Props1("v", SObj(Props1("p", SInt), {"p"})), {"v"}, FALSE),
                                                 IntVar(<<"b">>, Props1("v", SObj(Props1("q", SStr), {"q"})), {"v"}, FALSE) >>)),
         Doc("F9", "int-unit", SOneOf(<< IntVar(<<"a">>, << >>, {}, FALSE), IntVar(<<"b">>, Props1("y", SInt), {"y"}, FALSE) >>)),
         (* several candidate tag properties (each variant has more than one constant-valued member) *)
         Doc("F9", "int-two-tags", SOneOf(<<
              SObj(Props3("kind", Tag(<<"a">>), "type", Tag(<<"x">>), "v", SInt), {"kind", "type", "v"}),
              SObj(Props2("kind", Tag(<<"b">>), "type", Tag(<<"y">>)), {"kind", "type"}) >>)),
         Doc("F9", "int-three-tags", SOneOf(<<
              SObj(Props3("kind", Tag(<<"a">>), "type", Tag(<<"x">>), "zeta", Tag(<<"p">>)), {"kind", "type", "zeta"}),
              SObj(Props3("kind", Tag(<<"b">>), "type", Tag(<<"y">>), "zeta", Tag(<<"q">>)), {"kind", "type", "zeta"}) >>)),
         (* one-element tuple payloads and variant names that are not their own identifiers *)
         Doc("F9", "ext-one-tuple-lower", SOneOf(<< EnumS(<<JS(<<"e","m","p","t","y">>)>>), ExtVar("point", STuple(<<SInt>>)),
                                                     ExtVar("seg", STuple(<<SInt, SInt>>)) >>)),
         Doc("F9", "adj-one-tuple-lower", SOneOf(<< AdjVar(<<"p","t">>, STuple(<<SInt>>)), AdjVar(<<"s","g">>, STuple(<<SInt, SStr>>)) >>)),
         (* tuple variants whose payload is not Copy / Eq / Hash *)
         Doc("F9", "ext-tuple-float", SOneOf(<< EnumS(<<JS(<<"N","o","n","e">>)>>), ExtVar("Pair", STuple(<<SNum, SStr>>)) >>)),
         Doc("F9", "ext-tuple-only", SOneOf(<< ExtVar("A", STuple(<<SStr, SInt>>)), ExtVar("B", STuple(<<SNum, SNum>>)) >>)),
         Doc("F9", "untagged-tuples", SOneOf(<< STuple(<<SStr, SNum>>), SInt >>)),
         (* adjacently tagged *)
         Doc("F9", "adj", SOneOf(<< AdjVar(<<"a">>, SInt), AdjVar(<<"b">>, SObj(Props1("q", SStr), {"q"})) >>)),
         Doc("F9", "adj-unit", SOneOf(<< SObjClosed(Props1("t", Tag(<<"u">>)), {"t"}), AdjVar(<<"b">>, SArr(SInt)) >>)),
         (* untagged, type-disjoint *)
         Doc("F9", "untagged-scalars", SOneOf(<< SInt, SStr, SBool >>)),
         Doc("F9", "untagged-obj-arr", SOneOf(<< SObj(Props1("q", SInt), {"q"}), SArr(SStr), SNull >>)),
         Doc2("F9", "untagged-refs", SOneOf(<< SRef("N"), SStr >>), "N", SObj(Props1("q", SInt), {"q"})),
         Doc("F9", "titled-variants", SOneOf(<< Titled(SInt, "Count"), Titled(SStr, "Label") >>)),
         Doc("F9", "single", SOneOf(<< SObj(Props1("q", SInt), {"q"}) >>)) >>

(* branches over exactly two members, a constant tag t and one other member c: c required in
   both / only the first / neither branch, closed or open (the adjacent shape is the first row) *)
TwoMemberVar(tagv, payload, creq, closed) ==
    LET base == SObj(Props2("t", Tag(tagv), "c", payload), IF creq THEN {"t", "c"} ELSE {"t"})
    IN IF closed THEN With(base, "additionalProperties", SFalse) ELSE base
TwoMemberCombos == SetToSeq({"both", "first", "none"} \X BOOLEAN)
F9b == [k \in DOMAIN TwoMemberCombos |->
          LET r == TwoMemberCombos[k][1] cl == TwoMemberCombos[k][2] IN
          Doc("F9", "two-member-" \o r \o (IF cl THEN "-closed" ELSE "-open"),
              SOneOf(<< TwoMemberVar(<<"a">>, SInt, r \in {"both", "first"}, cl),
                        TwoMemberVar(<<"b">>, SStr, r = "both", cl) >>))]

F10 == << Doc("F10", "scalars", SAnyOf(<< SInt, SStr >>)),
          Doc("F10", "obj-disjoint", SAnyOf(<< SObjClosed(Props1("a", SInt), {"a"}), SObjClosed(Props1("b", SStr), {"b"}) >>)),
          Doc("F10", "arr-obj", SAnyOf(<< SArr(SInt), SObj(Props1("q", SInt), {"q"}) >>)),
          Doc2("F10", "refs", SAnyOf(<< SRef("N"), SBool >>), "N", SObj(Props1("q", SInt), {"q"})),
          Doc("F10", "tuples-short-first", SAnyOf(<< STuple(<<SInt, SStr>>), STuple(<<SInt, SStr, SBool>>) >>)),
          Doc("F10", "tuples-long-first", SAnyOf(<< STuple(<<SInt, SStr, SBool>>), STuple(<<SInt, SStr>>) >>)),
          Doc("F10", "tuple-vs-fixed", SAnyOf(<< SFixed(SInt, 3), STuple(<<SInt, SInt>>) >>)),
          Doc("F10", "obj-required-disjoint", SAnyOf(<< SObj(Props1("a", SInt), {"a"}), SArr(SInt) >>)),
          Doc("F10", "typelist-vs-single", SAnyOf(<< [types |-> <<"string", "null">>], SInt >>)),
          Doc("F10", "single-vs-typelist", SAnyOf(<< SBool, [types |-> <<"integer", "string">>] >>)),
          Doc("F10", "typelists-disjoint", SAnyOf(<< [types |-> <<"integer", "null">>], [types |-> <<"string", "boolean">>] >>)),
          Doc("F10", "objs-one-pins-tag", SAnyOf(<< SObj(Props2("kind", Tag(<<"x">>), "a", SInt), {"kind", "a"}),
                                                     SObj(Props3("kind", SStr, "a", SInt, "b", SStr), {"kind", "a"}) >>)),
          Doc("F10", "objs-overlap-optional", SAnyOf(<< SObj(Props1("a", SInt), {}), SObj(Props2("a", SInt, "b", SStr), {}) >>)),
          Doc("F10", "enum-consts", SAnyOf(<< EnumS(<<JS(<<"a">>)>>), EnumS(<<JS(<<"b">>)>>) >>)) >>

F11 == << Doc("F11", "two-objs", SAllOf(<< SObj(Props1("a", SInt), {"a"}), SObj(Props1("b", SStr), {}) >>)),
          Doc2("F11", "ref-and-obj", SAllOf(<< SRef("N"), SObj(Props1("b", SStr), {"b"}) >>), "N", SObj(Props1("q", SInt), {"q"})),
          Doc("F11", "overlap", SAllOf(<< SObj(Props2("a", SInt, "b", SStr), {"a"}), SObj(Props1("b", SStr), {"b"}) >>)),
          Doc("F11", "single", SAllOf(<< SObj(Props1("a", SInt), {"a"}) >>)),
          Doc2("F11", "two-refs", SAllOf(<< SRef("N"), SRef("M") >>), "N", SObj(Props1("q", SInt), {"q"})),
          (* a property described by both branches: its merged schema keeps every admissible enum value *)
          Doc("F11", "num-enum-prop", SAllOf(<< SObj(Props1("scale", [type |-> "number", enum |-> <<JInt(1), JHalf(3), JInt(2)>>]), {"scale"}),
                                                 SObj(Props2("scale", SNum, "label", SStr), {}) >>)),
          Doc("F11", "str-enum-prop", SAllOf(<< SObj(Props1("c", EnumS(<<JS(<<"r">>), JS(<<"g">>), JS(<<"b">>)>>)), {"c"}),
                                                 SObj(Props1("c", [type |-> "string", minLength |-> 1]), {}) >>)),
          Doc("F11", "int-enum-prop", SAllOf(<< SObj(Props1("n", [type |-> "integer", enum |-> <<JInt(1), JInt(2), JInt(3)>>]), {}),
                                                 SObj(Props1("n", [type |-> "integer", minimum |-> JInt(2)]), {"n"}) >>)),
          Doc("F11", "closed-one", SAllOf(<< SObj(Props1("a", SInt), {"a"}), SObj(Props1("b", SStr), {}) >>)) >>

Fix11 == [i \in DOMAIN F11 |->
            IF F11[i].id = "two-refs"
            THEN [F11[i] EXCEPT !.defs = @ @@ ("M" :> SObj(Props1("r", SStr), {}))]
            ELSE F11[i]]

(* N: one level of nesting - named-type-producing inline schemas (string enums, objects,
   constrained strings, typed enums) at every container position, in pairs, so that derived
   names of inline types meet by-name reuse *)
InnerPool == << [id |-> "enumA", s |-> EnumS(<<JS(<<"r","e","d">>), JS(<<"g">>)>>)],
                [id |-> "enumB", s |-> EnumS(<<JS(<<"s">>), JS(<<"l">>)>>)],
                [id |-> "objA", s |-> SObj(Props1("p", SInt), {"p"})],
                [id |-> "objB", s |-> SObj(Props1("q", SStr), {"q"})],
                [id |-> "objO", s |-> SObj(Props1("r", SStr), {})],
                [id |-> "strC", s |-> [type |-> "string", minLength |-> 1, maxLength |-> 2]],
                [id |-> "intE", s |-> [type |-> "integer", enum |-> <<JInt(1), JInt(2)>>]],
                [id |-> "int", s |-> SInt] >>
NPairs == { <<i, j>> \in (DOMAIN InnerPool) \X (DOMAIN InnerPool) : i # j /\ InnerPool[i].id # "int" /\ InnerPool[j].id # "int" }
NP == SetToSeq(NPairs)
X(i) == InnerPool[i].s
NId(pre, pr) == pre \o "-" \o InnerPool[pr[1]].id \o "-" \o InnerPool[pr[2]].id
N ==   [k \in DOMAIN NP |-> Doc("N", NId("tuple", NP[k]), STuple(<<X(NP[k][1]), X(NP[k][2])>>))]
    \o [k \in DOMAIN NP |-> Doc("N", NId("props", NP[k]), SObj(Props2("a", X(NP[k][1]), "b", X(NP[k][2])), {"a"}))]
    \o [k \in DOMAIN NP |-> Doc("N", NId("extvar", NP[k]), SOneOf(<< ExtVar("A", X(NP[k][1])), ExtVar("B", X(NP[k][2])) >>))]
    \o [i \in DOMAIN InnerPool |-> Doc("N", "arr-" \o InnerPool[i].id, SArr(X(i)))]
    \o [i \in DOMAIN InnerPool |-> Doc("N", "map-" \o InnerPool[i].id, SMap(X(i)))]
    \o [i \in DOMAIN InnerPool |-> Doc("N", "opt-" \o InnerPool[i].id, SObj(Props1("o", SNullable(X(i))), {}))]
    \o [i \in DOMAIN InnerPool |-> Doc("N", "deep-" \o InnerPool[i].id, SObj(Props1("a", SObj(Props1("b", X(i)), {"b"})), {"a"}))]
    \o [i \in DOMAIN InnerPool |-> Doc("N", "tuple3-" \o InnerPool[i].id, STuple(<<X(i), SInt, X(i)>>))]
    \o [i \in DOMAIN InnerPool |-> Doc("N", "arr-in-prop-" \o InnerPool[i].id, SObj(Props2("v", SArr(X(i)), "w", STuple(<<X(i), SStr>>)), {}))]

(* A: array-valued properties - every combination of required / uniqueItems / minItems / maxItems *)
ArrProp(req, uniq, mn, mx) ==
    Doc("A", (IF req THEN "req" ELSE "opt") \o (IF uniq THEN "-set" ELSE "-vec")
             \o (IF mn = -1 THEN "-minx" ELSE IF mn = 0 THEN "-min0" ELSE "-min1")
             \o (IF mx = -1 THEN "-maxx" ELSE "-max2"),
        SObj(Props2("id", SStr,
                    "tags", [type |-> "array", items |-> SStr]
                            @@ (IF uniq THEN [uniqueItems |-> TRUE] ELSE << >>)
                            @@ (IF mn >= 0 THEN [minItems |-> mn] ELSE << >>)
                            @@ (IF mx >= 0 THEN [maxItems |-> mx] ELSE << >>)),
             IF req THEN {"id", "tags"} ELSE {"id"}))
AFam == LET cs == SetToSeq(BOOLEAN \X BOOLEAN \X {-1, 0, 1} \X {-1, 2})
        IN [i \in DOMAIN cs |-> ArrProp(cs[i][1], cs[i][2], cs[i][3], cs[i][4])]

QuickUniverse == F1 \o F1nz \o F2 \o F3 \o F4 \o F5 \o F5d \o F6 \o F7 \o F8 \o F9 \o F9b \o F10 \o Fix11 \o N \o AFam
=============================================================================
