----------------------------- MODULE Instances -----------------------------
(***************************************************************************)
(* L0: schema-directed generation of candidate instances.  Inst(S) is a    *)
(* sequence of tagged JSON values that straddle every constraint of S:     *)
(* conforming values, boundary values on both sides of every bound,        *)
(* one-member-at-a-time variations of objects / arrays / tuples, missing   *)
(* and extra members, and values of the wrong JSON type.  Candidates are   *)
(* NOT assumed valid: each is classified by Schema!Valid (and by the       *)
(* Python validator), so the generator cannot cause a false verdict.       *)
(***************************************************************************)
EXTENDS Schema, SequencesExt


RECURSIVE Rep(_, _)
Rep(tok, n) == IF n <= 0 THEN << >> ELSE <<tok>> \o Rep(tok, n - 1)

RECURSIVE Flat(_)
Flat(ss) == IF Len(ss) = 0 THEN << >> ELSE Head(ss) \o Flat(Tail(ss))

(* canonical samples for formatted strings (conforming by construction) *)
Sample(fmt) == [i \in DOMAIN StrFormatSamples(fmt) |-> JStr(StrFormatSamples(fmt)[i])]
FormattedString(Sc) == SHas(Sc, "format") /\ Len(Sample(Sc.format)) > 0

WrongTypes == << JNull, JBool(TRUE), JInt(1), JStr(<<"a">>), JArr(<< >>), JEmptyObj >>

StrCands(Sc) ==
    IF FormattedString(Sc) THEN Sample(Sc.format)
    ELSE
    LET lens == {0, 1, 2, 3}
               \cup (IF SHas(Sc, "minLength") THEN {Sc.minLength - 1, Sc.minLength} ELSE {})
               \cup (IF SHas(Sc, "maxLength") THEN {Sc.maxLength, Sc.maxLength + 1} ELSE {})
        ls == SetToSeq({ n \in lens : n >= 0 })
    IN [i \in DOMAIN ls |-> JStr(Rep("a", ls[i]))]
       \o [i \in DOMAIN ls |-> JStr(Rep("<e9>", ls[i]))]          \* 2-byte scalars
       \o << JStr(<<"a", "b">>), JStr(<<"b">>), JStr(<<"<1d11e>">>), JStr(<<"a", "<1d11e>">>) >>

BoundCands(Sc, k) == IF SHas(Sc, k) /\ "t" \in DOMAIN Sc[k] /\ Sc[k].t = "int"
                     THEN << JInt(Sc[k].v - 1), JInt(Sc[k].v), JInt(Sc[k].v + 1) >>
                     ELSE IF SHas(Sc, k) /\ "a" \in DOMAIN Sc[k]
                     THEN << JBig(Pt(Sc[k].a, Sc[k].o - 1)), JBig(Sc[k]), JBig(Pt(Sc[k].a, Sc[k].o + 1)) >>
                     ELSE << >>
IntCands(Sc) ==
    << JInt(0), JInt(1), JInt(-1), JInt(2), JInt(300) >>
    \o BoundCands(Sc, "minimum") \o BoundCands(Sc, "maximum")
    \o BoundCands(Sc, "exclusiveMinimum") \o BoundCands(Sc, "exclusiveMaximum")
    \o (IF SHas(Sc, "format") /\ IntFormatType(Sc.format) # "none"
        THEN LET ty == IntFormatType(Sc.format) IN
             << JBig(TMin(ty)), JBig(Pt(TMin(ty).a, TMin(ty).o - 1)),
                JBig(TMax(ty)), JBig(Pt(TMax(ty).a, TMax(ty).o + 1)) >>
        ELSE << JBig(Pt("i64max", 0)), JBig(Pt("i64min", 0)) >>)
NumCands(Sc) == << JInt(0), JHalf(3), JInt(-2), JHalf(-1) >>

First(seq, P(_), dflt) == IF \E i \in DOMAIN seq : P(seq[i])
                          THEN seq[CHOOSE i \in DOMAIN seq : P(seq[i]) /\ \A j \in 1 .. i - 1 : ~P(seq[j])]
                          ELSE dflt

ObjWith(ks, f) == JObj(ks, [i \in DOMAIN ks |-> f[ks[i]]])

RECURSIVE InstL(_, _, _, _)
(* nesting level lvl: below the second level only the first few candidates of a position are
   varied (keeps the candidate sets of deep documents small) *)
Trunc(seq, lvl) == IF lvl >= 2 /\ Len(seq) > 4 THEN SubSeq(seq, 1, 4) ELSE seq
(* a conforming value of Sc if the candidates contain one *)
GoodL(Sc, defs, d, lvl) == First(InstL(Sc, defs, d, lvl), LAMBDA x : Valid(Sc, x, defs), JNull)
Good(Sc, defs, d) == GoodL(Sc, defs, d, 0)

ScalarCands(Sc, ty) ==
    CASE ty = "string"  -> StrCands(Sc)
      [] ty = "integer" -> IntCands(Sc)
      [] ty = "number"  -> NumCands(Sc)
      [] ty = "boolean" -> << JBool(TRUE), JBool(FALSE) >>
      [] ty = "null"    -> << JNull >>
      [] OTHER -> << >>

ObjCands(Sc, defs, d, lvl) ==
    LET props == IF SHas(Sc, "properties") THEN Sc.properties ELSE << >>
        ks == SetToSeq(DOMAIN props)
        req == ReqSet(Sc)
        good == [k \in DOMAIN props |-> GoodL(props[k], defs, d, lvl + 1)]
        all == ObjWith(ks, good)
        rks == SelectSeq(ks, LAMBDA k : k \in req)
        onlyReq == ObjWith(rks, good)
        vary == Flat([i \in DOMAIN ks |->
                   LET c == Trunc(InstL(props[ks[i]], defs, d, lvl + 1), lvl + 1) IN
                   [j \in DOMAIN c |-> ObjWith(ks, [good EXCEPT ![ks[i]] = c[j]])]])
        drop == [i \in DOMAIN ks |-> ObjWith(SelectSeq(ks, LAMBDA k : k # ks[i]), good)]
        addl == IF SHas(Sc, "additionalProperties") /\ ~SHas(Sc.additionalProperties, "bool")
                THEN LET c == Trunc(InstL(Sc.additionalProperties, defs, d, lvl + 1), lvl + 1) IN
                     [j \in DOMAIN c |-> ObjWith(ks \o <<"zz">>, good @@ ("zz" :> c[j]))]
                     \o (IF Len(c) > 1 THEN << ObjWith(ks \o <<"zy", "zz">>,
                                                      good @@ ("zy" :> c[1]) @@ ("zz" :> c[2])) >> ELSE << >>)
                ELSE << ObjWith(ks \o <<"zz">>, good @@ ("zz" :> JInt(1))),
                        ObjWith(ks \o <<"zz">>, good @@ ("zz" :> JStr(<<"q">>))) >>
    IN << all, onlyReq >> \o vary \o drop \o addl

ArrCands(Sc, defs, d, lvl) ==
    IF SHas(Sc, "itemsList") THEN
        LET n == Len(Sc.itemsList)
            good == [i \in 1 .. n |-> GoodL(Sc.itemsList[i], defs, d, lvl + 1)]
            vary == Flat([i \in 1 .. n |->
                      LET c == Trunc(InstL(Sc.itemsList[i], defs, d, lvl + 1), lvl + 1) IN
                      [j \in DOMAIN c |-> JArr([good EXCEPT ![i] = c[j]])]])
        IN << JArr(good), JArr(good \o <<JInt(1)>>), JArr(good \o <<JNull>>), JArr(SubSeq(good, 1, n - 1)),
              JArr(<< >>) >> \o vary
    ELSE IF SHas(Sc, "items") THEN
        LET c == Trunc(InstL(Sc.items, defs, d, lvl + 1), lvl + 1)
            g == GoodL(Sc.items, defs, d, lvl + 1)
            g2 == First(c, LAMBDA x : Valid(Sc.items, x, defs) /\ ~JEq(x, g), g)
        IN << JArr(<< >>), JArr(<<g>>), JArr(<<g, g2>>), JArr(<<g, g>>), JArr(<<g, g2, g>>), JArr(<<g2, g, g2, g>>) >>
           \o [j \in DOMAIN c |-> JArr(<<g, c[j]>>)]
    ELSE << JArr(<< >>), JArr(<<JInt(1), JStr(<<"a">>)>>) >>

(* union of two objects (members of b win); for anyOf: an instance that is valid for two branches at
   once and carries the members of both *)
ObjUnion(a, b) == IF a.t # "obj" \/ b.t # "obj" THEN b
                  ELSE LET ka == SelectSeq(a.k, LAMBDA k : ~HasKey(b, k))
                       IN JObj(ka \o b.k, [i \in DOMAIN ka |-> Get(a, ka[i])] \o b.v)
AnyOfUnions(Sc, defs, d, lvl) ==
    IF lvl > 0 THEN << >>
    ELSE LET g == [i \in DOMAIN Sc.anyOf |-> GoodL(Sc.anyOf[i], defs, d, lvl + 1)]
             ps == SetToSeq({ p \in (DOMAIN g) \X (DOMAIN g) : p[1] # p[2] /\ g[p[1]].t = "obj" /\ g[p[2]].t = "obj" })
         IN [k \in DOMAIN ps |-> ObjUnion(g[ps[k][1]], g[ps[k][2]])]

InstL(Sc, defs, d, lvl) ==
    IF SHas(Sc, "bool") THEN << JNull, JInt(1) >>
    ELSE IF SHas(Sc, "ref") THEN (IF d = 0 THEN << >> ELSE InstL(defs[Sc.ref], defs, d - 1, lvl))
    ELSE
      (IF SHas(Sc, "enum") THEN Sc.enum \o << JStr(<<"n", "o", "p", "e">>), JInt(77) >> ELSE << >>)
      \o (IF SHas(Sc, "oneOf") THEN Flat([i \in DOMAIN Sc.oneOf |-> InstL(Sc.oneOf[i], defs, d, lvl)]) ELSE << >>)
      \o (IF SHas(Sc, "anyOf") THEN Flat([i \in DOMAIN Sc.anyOf |-> InstL(Sc.anyOf[i], defs, d, lvl)])
                                     \o AnyOfUnions(Sc, defs, d, lvl) ELSE << >>)
      \o (IF SHas(Sc, "allOf") THEN Flat([i \in DOMAIN Sc.allOf |-> InstL(Sc.allOf[i], defs, d, lvl)]) ELSE << >>)
      \o (IF SHas(Sc, "enum") THEN << >>
          ELSE Flat([i \in DOMAIN TypeSeq(Sc) |-> ScalarCands(Sc, TypeSeq(Sc)[i])]))
      \o (IF "object" \in Range(TypeSeq(Sc)) \/ (Len(TypeSeq(Sc)) = 0 /\ (SHas(Sc, "properties") \/ SHas(Sc, "additionalProperties")))
          THEN ObjCands(Sc, defs, d, lvl) ELSE << >>)
      \o (IF "array" \in Range(TypeSeq(Sc)) THEN ArrCands(Sc, defs, d, lvl) ELSE << >>)

Inst(Sc, defs, d) == InstL(Sc, defs, d, 0)

(* candidates plus wrong-type values *)
Candidates(Sc, defs, d) == Inst(Sc, defs, d) \o WrongTypes
=============================================================================
