---------------------------- MODULE Trace_C10f ----------------------------
(***************************************************************************)
(* L4: C10 for string and number formats.  Event "fmt": the case (type,    *)
(* format, spelling) and the type add_type chose (Option unwrapped).       *)
(* Contract: the documented table for recognised string formats; every     *)
(* other string format gives String; number gives f64, or f32 for the      *)
(* recognised format float - nothing narrower.                             *)
(***************************************************************************)
EXTENDS Json, IOUtils, TLC, Sequences, Integers

Rec == ndJsonDeserialize(IOEnv.TRACE)
VARIABLES l, nbad, nself
vars == <<l, nbad, nself>>
Init == l = 1 /\ nbad = 0 /\ nself = 0

Documented(f) ==
    CASE f = "uuid" -> "::uuid::Uuid"
      [] f = "date" -> "::chrono::naive::NaiveDate"
      [] f = "date-time" -> "::chrono::DateTime<::chrono::offset::Utc>"
      [] f = "ip" -> "::std::net::IpAddr"
      [] f = "ipv4" -> "::std::net::Ipv4Addr"
      [] f = "ipv6" -> "::std::net::Ipv6Addr"
      [] OTHER -> "String"
Expected(e) == IF e.c.ty = "string" THEN {Documented(e.c.fmt)}
               ELSE IF e.c.fmt = "float" THEN {"f32"} ELSE {"f64"}
Diag(e) == IF e.res # "ok" THEN "C10/FormatSchemaRejected"
           ELSE IF e.chosen \in Expected(e) THEN "ok"
           ELSE IF e.c.ty = "string" /\ Documented(e.c.fmt) # "String" THEN "C10/FormatTypeNotAsDocumented"
           ELSE "C10/UnknownFormatNotDegraded"
Step == /\ l <= Len(Rec) /\ Rec[l].ev = "fmt" /\ l' = l + 1
        /\ LET e == Rec[l] d == Diag(e) IN
             IF d = "ok" THEN nbad' = nbad
             ELSE /\ nbad' = nbad + 1
                  /\ PrintT(<<"BAD", ToJson([l |-> l, case |-> e.case, prop |-> "C10", diag |-> d, known |-> {},
                                             c |-> e.c, chosen |-> e.chosen, res |-> e.res])>>)
        /\ UNCHANGED nself
Next == Step
Spec == Init /\ [][Next]_vars
Finished ==
    /\ PrintT(<<"TRACE-STATS", ToJson([lines |-> Len(Rec), diameter |-> TLCGet("stats").diameter,
                                      distinct |-> TLCGet("stats").distinct,
                                      generated |-> TLCGet("stats").generated])>>)
    /\ TLCGet("stats").diameter = Len(Rec) + 1
AtEnd == l = Len(Rec) + 1 => PrintT(<<"TRACE-END", ToJson([nbad |-> nbad, nself |-> nself, l |-> l])>>)
=============================================================================
