SPECIFICATION Spec
CONSTANTS
  Keys = {}
  Names = {}
  MaxId = 0
INVARIANT AtEnd
POSTCONDITION Finished
CHECK_DEADLOCK FALSE
