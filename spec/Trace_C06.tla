----------------------------- MODULE Trace_C06 -----------------------------
(***************************************************************************)
(* L4: trace validation for C06.                                           *)
(*   an invalid default (Schema!Valid on the site's schema) must make the  *)
(*   ingestion call fail; a valid default that is accepted must neither    *)
(*   break rendering nor compilation, and every realisation of it (the     *)
(*   serde default for a missing member, the builder's initial value,      *)
(*   Default::default() of the struct or of the named type) must equal the *)
(*   schema default up to nested defaults and be valid under the schema.   *)
(***************************************************************************)
EXTENDS ContractSerde, Json, IOUtils

Rec == ndJsonDeserialize(IOEnv.TRACE)
VARIABLES l, nbad, nself, cur, ingest, rres, cres
vars == <<l, nbad, nself, cur, ingest, rres, cres>>
Init == l = 1 /\ nbad = 0 /\ nself = 0 /\ cur = << >> /\ ingest = "none" /\ rres = "none" /\ cres = "none"
IsEvent(k) == l <= Len(Rec) /\ Rec[l].ev = k /\ l' = l + 1

DValid == Valid(cur.sp, cur.d, cur.defs)

CaseEv == /\ IsEvent("case") /\ cur' = Rec[l] /\ ingest' = "none" /\ rres' = "none" /\ cres' = "none"
          /\ UNCHANGED <<nbad, nself>>
Ingest == /\ IsEvent("ingest")
          /\ ingest' = IF Rec[l].res = "ok" /\ ingest # "rejected" THEN "ok" ELSE "rejected"
          /\ UNCHANGED <<nbad, nself, cur, rres, cres>>
Render == /\ IsEvent("render") /\ rres' = Rec[l].res /\ UNCHANGED <<nbad, nself, cur, ingest, cres>>
Compile == /\ IsEvent("compile") /\ cres' = Rec[l].res /\ UNCHANGED <<nbad, nself, cur, ingest, rres>>
Skip == /\ (IsEvent("bounds") \/ IsEvent("probe_na") \/ IsEvent("intro") \/ IsEvent("bounds_decl"))
        /\ UNCHANGED <<nbad, nself, cur, ingest, rres, cres>>

(* ---- known findings: identified by the specific (kind, position) input --- *)
KnownTable ==
  << <<"any-obj", "prop", "C06/RealisedDiffersFromSchemaDefault", "C06-any-default-dropped">>,
     <<"bool-bad", "type", "C06/InvalidDefaultAccepted", "C06-type-level-default-not-validated">>,
     <<"f32", "prop", "C06/RealisedDiffersFromSchemaDefault", "C06-number-default-dropped">>,
     <<"fixed-short", "type", "C06/InvalidDefaultAccepted", "C06-type-level-default-not-validated">>,
     <<"float-1.5", "prop", "C06/RealisedDiffersFromSchemaDefault", "C06-number-default-dropped">>,
     <<"float-bad", "prop", "C06/InvalidDefaultAccepted", "C06-number-default-dropped">>,
     <<"float-bad", "type", "C06/InvalidDefaultAccepted", "C06-type-level-default-not-validated">>,
     <<"float-int", "prop", "C06/RealisedDiffersFromSchemaDefault", "C06-number-default-dropped">>,
     <<"inline-constrained", "prop", "C06/InvalidDefaultAccepted", "C06-property-default-not-validated-for-kind">>,
     <<"inline-constrained", "type", "C06/InvalidDefaultAccepted", "C06-type-level-default-not-validated">>,
     <<"int-float", "type", "C06/InvalidDefaultAccepted", "C06-type-level-default-not-validated">>,
     <<"map-bad", "type", "C06/InvalidDefaultAccepted", "C06-type-level-default-not-validated">>,
     <<"newtype-bad", "prop", "C06/InvalidDefaultAccepted", "C06-property-default-not-validated-for-kind">>,
     <<"newtype-bad", "type", "C06/InvalidDefaultAccepted", "C06-type-level-default-not-validated">>,
     <<"nz-0", "prop", "C06/InvalidDefaultAccepted", "C06-property-default-not-validated-for-kind">>,
     <<"nz-0", "type", "C06/InvalidDefaultAccepted", "C06-type-level-default-not-validated">>,
     <<"opt-bad", "type", "C06/InvalidDefaultAccepted", "C06-type-level-default-not-validated">>,
     <<"set-dup", "type", "C06/InvalidDefaultAccepted", "C06-type-level-default-not-validated">>,
     <<"str-bad", "prop", "C06/InvalidDefaultAccepted", "C06-property-default-not-validated-for-kind">>,
     <<"str-bad", "type", "C06/InvalidDefaultAccepted", "C06-type-level-default-not-validated">>,
     <<"struct-bad-member", "type", "C06/InvalidDefaultAccepted", "C06-type-level-default-not-validated">>,
     <<"struct-flatten", "prop", "C06/ValidDefaultBreaksRendering", "C06-flattened-member-in-default">>,
     <<"struct-missing-req", "type", "C06/InvalidDefaultAccepted", "C06-type-level-default-not-validated">>,
     <<"struct-nested-default", "prop", "C06/RealisedHasUnexpectedMembers", "C06-nested-defaults-not-applied">>,
     <<"tuple-arity", "type", "C06/InvalidDefaultAccepted", "C06-type-level-default-not-validated">>,
     <<"tuple-bad", "type", "C06/InvalidDefaultAccepted", "C06-type-level-default-not-validated">>,
     <<"unit-null", "prop", "C06/ValidDefaultBreaksRendering", "C06-unit-default-render-panic">>,
     <<"untagged-bad", "prop", "C06/InvalidDefaultAccepted", "C06-property-default-not-validated-for-kind">>,
     <<"untagged-bad", "type", "C06/InvalidDefaultAccepted", "C06-type-level-default-not-validated">>,
     <<"uuid-bad", "prop", "C06/InvalidDefaultAccepted", "C06-property-default-not-validated-for-kind">>,
     <<"uuid-bad", "type", "C06/InvalidDefaultAccepted", "C06-type-level-default-not-validated">>,
     <<"vec-bad", "type", "C06/InvalidDefaultAccepted", "C06-type-level-default-not-validated">>,
     <<"vec-notarr", "type", "C06/InvalidDefaultAccepted", "C06-type-level-default-not-validated">>,
     <<"fmt-int64-over", "prop", "C06/InvalidDefaultAccepted", "C06-int64-default-one-past-max">> >>
(* type-level defaults are never validated on the pinned tree (lib.rs:691-752): every accepted
   invalid default in position "type" belongs to that one finding; the flattened-member finding is
   any valid struct default that reaches a typed additionalProperties map *)
KnownSemantic(d) ==
    (IF d = "C06/InvalidDefaultAccepted" /\ cur.pos = "type" THEN {"C06-type-level-default-not-validated"} ELSE {})
    \cup (IF d = "C06/ValidDefaultBreaksRendering" /\ cur.pos = "prop" /\ SHas(cur.sp, "ref")
              /\ SHas(cur.defs[cur.sp.ref], "additionalProperties") /\ ~SHas(cur.defs[cur.sp.ref].additionalProperties, "bool")
          THEN {"C06-flattened-member-in-default"} ELSE {})
Known(d) == KnownSemantic(d) \cup { KnownTable[i][4] : i \in { j \in DOMAIN KnownTable :
                KnownTable[j][1] = cur.id /\ (KnownTable[j][2] = cur.pos \/ KnownTable[j][2] = "*")
                /\ KnownTable[j][3] = d } }

Bad(e, d, extra) ==
    PrintT(<<"BAD", ToJson([l |-> l, case |-> e.case, prop |-> "C06", diag |-> d, id |-> cur.id, pos |-> cur.pos,
                            known |-> Known(d), default |-> cur.d, dvalid |-> DValid, extra |-> extra])>>)

(* realisations *)
SiteOf(e) == cur.probes[e.probe].ty.def
Expected(e) == IF SiteOf(e) = "T" THEN JObj1("p", cur.d) ELSE cur.d
SchemaOfSite(e) == cur.defs[SiteOf(e)]
RealisedDiag(e, present, out) ==
    IF ~DValid THEN "ok"      \* an accepted invalid default is reported at endcase
    ELSE IF ~present THEN "C06/DefaultNotRealised"
    ELSE IF ~Contained(Prune(Expected(e)), Prune(out)) THEN "C06/RealisedDiffersFromSchemaDefault"
    ELSE IF ~AddedOK(SchemaOfSite(e), Expected(e), out, cur.defs) THEN "C06/RealisedHasUnexpectedMembers"
    ELSE IF ~Valid(SchemaOfSite(e), out, cur.defs) THEN "C06/RealisedInvalid"
    ELSE "ok"
Realise(kind, present(_), out(_)) ==
    /\ IsEvent(kind)
    /\ LET e == Rec[l] d == RealisedDiag(e, present(e), out(e)) IN
         IF d = "ok" THEN nbad' = nbad
         ELSE nbad' = nbad + 1 /\ Bad(e, d, [site |-> SiteOf(e), kind |-> kind, out |-> out(e)])
    /\ UNCHANGED <<nself, cur, ingest, rres, cres>>
Deser == Realise("deser", LAMBDA e : e.ok /\ e.ser_ok, LAMBDA e : e.out)
Dflt == Realise("default", LAMBDA e : e.ser_ok, LAMBDA e : e.out)
Build == Realise("builder", LAMBDA e : e.ok, LAMBDA e : e.out)
Panic == /\ IsEvent("probe_panic")
         /\ (IF DValid THEN nbad' = nbad + 1 /\ Bad(Rec[l], "C06/RealisationPanics", [site |-> SiteOf(Rec[l])])
             ELSE nbad' = nbad)
         /\ UNCHANGED <<nself, cur, ingest, rres, cres>>

EndDiag == IF ingest # "ok" THEN "ok"
           ELSE IF ~DValid THEN "C06/InvalidDefaultAccepted"
           ELSE IF rres # "ok" THEN "C06/ValidDefaultBreaksRendering"
           ELSE IF cres # "ok" THEN "C06/ValidDefaultBreaksCompilation"
           ELSE "ok"
End == /\ IsEvent("endcase")
       /\ (IF EndDiag = "ok" THEN nbad' = nbad
           ELSE nbad' = nbad + 1 /\ Bad(Rec[l], EndDiag, [rres |-> rres, cres |-> cres]))
       /\ UNCHANGED <<nself, cur, ingest, rres, cres>>

Next == CaseEv \/ Ingest \/ Render \/ Compile \/ Skip \/ Deser \/ Dflt \/ Build \/ Panic \/ End
Spec == Init /\ [][Next]_vars
Finished ==
    /\ PrintT(<<"TRACE-STATS", ToJson([lines |-> Len(Rec), diameter |-> TLCGet("stats").diameter,
                                      distinct |-> TLCGet("stats").distinct,
                                      generated |-> TLCGet("stats").generated])>>)
    /\ TLCGet("stats").diameter = Len(Rec) + 1
AtEnd == l = Len(Rec) + 1 => PrintT(<<"TRACE-END", ToJson([nbad |-> nbad, nself |-> nself, l |-> l])>>)
=============================================================================
