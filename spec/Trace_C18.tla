----------------------------- MODULE Trace_C18 -----------------------------
(***************************************************************************)
(* L4: trace validation for C18.  The case echoes the struct description   *)
(* and the history of setter calls; the recorded `builder` event (result   *)
(* of try_into on the real builder) is validated by replaying the history  *)
(* through ContractBuilder's actions.  The `deser` event of the same case  *)
(* gives what deserialising the object with the set members yields; the    *)
(* second `builder` event is struct -> builder -> struct.                  *)
(***************************************************************************)
EXTENDS ContractBuilder, JsonVal, Json, IOUtils

Rec == ndJsonDeserialize(IOEnv.TRACE)
VARIABLES l, nbad, nself, cur, built, deser
vars == <<l, nbad, nself, cur, built, deser>>
None == [t |-> "na"]
Init == l = 1 /\ nbad = 0 /\ nself = 0 /\ cur = << >> /\ built = None /\ deser = None
IsEvent(k) == l <= Len(Rec) /\ Rec[l].ev = k /\ l' = l + 1

CaseEv == /\ IsEvent("case") /\ cur' = Rec[l] /\ built' = None /\ deser' = None /\ UNCHANGED <<nbad, nself>>
Skip == /\ (IsEvent("ingest") \/ IsEvent("render") \/ IsEvent("bounds") \/ IsEvent("probe_na")
            \/ IsEvent("intro") \/ IsEvent("bounds_decl"))
        /\ UNCHANGED <<nbad, nself, cur, built, deser>>

Slots == SlotsAfter(cur.desc, cur.hist)
(* field identifiers named by the message vs failing properties: the JSON
   name and the identifier coincide except for the keyword struct *)
IdentOf(p) == CASE p = "type" -> "type_" [] p = "a-b" -> "a_b" [] OTHER -> p

Known(d) == {}
Bad(e, d, extra) == PrintT(<<"BAD", ToJson([l |-> l, case |-> e.case, probe |-> e.probe, prop |-> "C18", diag |-> d,
                                            id |-> cur.id, hist |-> cur.hist, known |-> Known(d), extra |-> extra])>>)

BuildDiag(e) ==
    IF cur.probes[e.probe].mode = "from_struct" THEN
        (IF deser.t = "na" THEN "ok"                      \* the object itself did not deserialise: nothing to compare
         ELSE IF ~e.ok THEN "C18/StructToBuilderToStructFails"
         ELSE IF ~JEq(e.out, deser) THEN "C18/StructToBuilderToStructDiffers" ELSE "ok")
    ELSE IF e.ok # BuildSucceeds(cur.desc, Slots) THEN
        (IF e.ok THEN "C18/BuildSucceedsWithMissingOrFailedProperty" ELSE "C18/BuildFailsAlthoughComplete")
    ELSE IF ~e.ok /\ { IdentOf(p) : p \in Failing(cur.desc, Slots) } \cap { e.mentions[i] : i \in DOMAIN e.mentions } = {}
         THEN "C18/ErrorDoesNotNameFailingProperty"
    ELSE "ok"

Builder == /\ IsEvent("builder")
           /\ LET e == Rec[l] d == BuildDiag(e) IN
                /\ (IF d = "ok" THEN nbad' = nbad ELSE nbad' = nbad + 1 /\ Bad(e, d, [ok |-> e.ok, msg |-> e.msg, out |-> e.out]))
                /\ built' = IF cur.probes[e.probe].mode = "set" /\ e.ok THEN e.out ELSE built
           /\ UNCHANGED <<nself, cur, deser>>

(* built value == from_value(object with the same members) *)
Deser == /\ IsEvent("deser")
         /\ LET e == Rec[l]
                d == IF built.t # "na" /\ (~e.ok \/ ~JEq(e.out, built)) THEN "C18/BuiltDiffersFromDeserialized" ELSE "ok"
            IN IF d = "ok" THEN nbad' = nbad ELSE nbad' = nbad + 1 /\ Bad(e, d, [built |-> built, deser_ok |-> e.ok, deser |-> e.out])
         /\ deser' = IF Rec[l].ok THEN Rec[l].out ELSE None
         /\ UNCHANGED <<nself, cur, built>>

(* the generated module (struct, builder, conversions) of a case does not compile: no builder
   of that struct can be converted at all *)
Compile == /\ IsEvent("compile")
           /\ LET e == Rec[l] IN
                IF e.res # "ok" /\ e.part \in {"g", "types"}
                THEN /\ nbad' = nbad + 1
                     /\ PrintT(<<"BAD", ToJson([l |-> l, case |-> e.case, probe |-> 0, prop |-> "C18",
                                                 diag |-> "C18/GeneratedBuilderDoesNotCompile", id |-> cur.id,
                                                 hist |-> cur.hist, known |-> {}, extra |-> [codes |-> e.codes, msg |-> e.msg]])>>)
                ELSE nbad' = nbad
           /\ UNCHANGED <<nself, cur, built, deser>>

Panic == /\ IsEvent("probe_panic") /\ nbad' = nbad + 1 /\ Bad(Rec[l], "C18/BuilderPanics", << >>)
         /\ UNCHANGED <<nself, cur, built, deser>>
End == /\ IsEvent("endcase") /\ UNCHANGED <<nbad, nself, cur, built, deser>>

Next == CaseEv \/ Skip \/ Compile \/ Builder \/ Deser \/ Panic \/ End
Spec == Init /\ [][Next]_vars
Finished ==
    /\ PrintT(<<"TRACE-STATS", ToJson([lines |-> Len(Rec), diameter |-> TLCGet("stats").diameter,
                                      distinct |-> TLCGet("stats").distinct,
                                      generated |-> TLCGet("stats").generated])>>)
    /\ TLCGet("stats").diameter = Len(Rec) + 1
AtEnd == l = Len(Rec) + 1 => PrintT(<<"TRACE-END", ToJson([nbad |-> nbad, nself |-> nself, l |-> l])>>)
=============================================================================
