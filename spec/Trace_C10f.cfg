SPECIFICATION Spec
INVARIANT AtEnd
POSTCONDITION Finished
CHECK_DEADLOCK FALSE
