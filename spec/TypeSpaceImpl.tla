--------------------------- MODULE TypeSpaceImpl ---------------------------
(***************************************************************************)
(* L2 implementation model for C16: identifier allocation and the          *)
(* de-duplication indexes of TypeSpace (typify-impl/src/lib.rs:184-210,    *)
(* 621-631, 680-686, 925-959).                                             *)
(*                                                                         *)
(*   nextId   next identifier to hand out (next_id)                         *)
(*   ents     id -> [named, name, to]   (id_to_entry; `to` = child ids)    *)
(*   nameIdx  type name -> id           (name_to_id)                       *)
(*   refIdx   reference key -> id       (ref_to_id; "#" is the root)       *)
(*   clean    no ingestion call has failed so far                          *)
(*                                                                         *)
(* One action per public ingestion call, in the steps the code takes:      *)
(* a contiguous block of fresh identifiers is reserved, the definition     *)
(* keys of the call are pre-assigned to identifiers of that block          *)
(* (ref_to_id is overwritten for a key defined again: recorded finding     *)
(* C16-redefinition-duplicates), then entries are filled in.  A call that  *)
(* fails part-way leaves pre-assigned identifiers without an entry; the    *)
(* soundness invariants of the indexes are therefore stated for clean      *)
(* histories.  Existing entries keep their identifier, their named-ness    *)
(* and their name for ever (cycle breaking and finalisation only rewrite   *)
(* children).                                                              *)
(*                                                                         *)
(* StepOK is the step relation shared by the machine (MC_TypeSpace checks  *)
(* that the constructive action below implies it and preserves the         *)
(* invariants) and by the trace monitor Trace_TS (every recorded call of   *)
(* the real TypeSpace must be an instance of it).                          *)
(***************************************************************************)
EXTENDS Integers, FiniteSets, Sequences, TLC

VARIABLES nextId, ents, nameIdx, refIdx, clean
tsiVars == <<nextId, ents, nameIdx, refIdx, clean>>

State == [nextId |-> nextId, ents |-> ents, nameIdx |-> nameIdx, refIdx |-> refIdx, clean |-> clean]

TSIInit == nextId = 1 /\ ents = << >> /\ nameIdx = << >> /\ refIdx = << >> /\ clean = TRUE

(* ---- invariants over one state ---------------------------------------- *)
AllocBoundS(s)   == \A i \in DOMAIN s.ents : i >= 1 /\ i < s.nextId
RefBoundS(s)     == \A k \in DOMAIN s.refIdx : s.refIdx[k] < s.nextId
NameIdxSoundS(s) == \A n \in DOMAIN s.nameIdx :
                        /\ s.nameIdx[n] \in DOMAIN s.ents
                        /\ s.ents[s.nameIdx[n]].named
                        /\ s.ents[s.nameIdx[n]].name = n
RefIdxSoundS(s)  == s.clean => \A k \in DOMAIN s.refIdx : s.refIdx[k] \in DOMAIN s.ents
NoDanglingS(s)   == s.clean => \A i \in DOMAIN s.ents : s.ents[i].to \subseteq DOMAIN s.ents
(* every named entry can be found again by its name (re-use by name) *)
NamedIndexedS(s) == \A i \in DOMAIN s.ents : s.ents[i].named => s.ents[i].name \in DOMAIN s.nameIdx

StateDiag(s) ==
    IF ~AllocBoundS(s) THEN "C16/TS/IdBeyondNextId"
    ELSE IF ~RefBoundS(s) THEN "C16/TS/RefBeyondNextId"
    ELSE IF ~NameIdxSoundS(s) THEN "C16/TS/NameIndexUnsound"
    ELSE IF ~RefIdxSoundS(s) THEN "C16/TS/RefIndexDangling"
    ELSE IF ~NoDanglingS(s) THEN "C16/TS/DanglingChild"
    ELSE IF ~NamedIndexedS(s) THEN "C16/TS/NamedEntryNotIndexed"
    ELSE "ok"

(* ---- step relation ----------------------------------------------------- *)
Fresh(o, i) == i >= o.nextId
EntriesKept(o, n) == DOMAIN o.ents \subseteq DOMAIN n.ents
OnlyFreshAdded(o, n) == \A i \in DOMAIN n.ents \ DOMAIN o.ents : Fresh(o, i)
NamesKept(o, n) == \A i \in DOMAIN o.ents \cap DOMAIN n.ents :
                       o.ents[i].named => n.ents[i].named /\ n.ents[i].name = o.ents[i].name
RefKeysKept(o, n) == DOMAIN o.refIdx \subseteq DOMAIN n.refIdx
(* a key the call does not define keeps its identifier; a key it defines gets
   a fresh one or keeps the old one *)
RefsStable(o, n, keys) ==
    \A k \in DOMAIN o.refIdx \cap DOMAIN n.refIdx :
        \/ n.refIdx[k] = o.refIdx[k]
        \/ k \in keys /\ Fresh(o, n.refIdx[k])
RefsOnlyForKeys(o, n, keys) == \A k \in DOMAIN n.refIdx \ DOMAIN o.refIdx : k \in keys
NameKeysKept(o, n) == DOMAIN o.nameIdx \subseteq DOMAIN n.nameIdx
(* a name is re-pointed only at an entry created by this call *)
NameIdxStable(o, n) == \A m \in DOMAIN o.nameIdx \cap DOMAIN n.nameIdx :
                           n.nameIdx[m] = o.nameIdx[m] \/ Fresh(o, n.nameIdx[m])

StepDiag(o, n, keys) ==
    IF n.nextId < o.nextId THEN "C16/TS/NextIdDecreased"
    ELSE IF ~EntriesKept(o, n) THEN "C16/TS/EntryRemoved"
    ELSE IF ~OnlyFreshAdded(o, n) THEN "C16/TS/StaleIdReused"
    ELSE IF ~NamesKept(o, n) THEN "C16/TS/EntryRenamed"
    ELSE IF ~RefKeysKept(o, n) THEN "C16/TS/RefKeyRemoved"
    ELSE IF ~RefsStable(o, n, keys) THEN "C16/TS/ForeignRefRepointed"
    ELSE IF ~RefsOnlyForKeys(o, n, keys) THEN "C16/TS/RefKeyNotOfThisCall"
    ELSE IF ~NameKeysKept(o, n) THEN "C16/TS/NameRemoved"
    ELSE IF ~NameIdxStable(o, n) THEN "C16/TS/NameRepointedToOldEntry"
    ELSE "ok"
StepOK(o, n, keys) == StepDiag(o, n, keys) = "ok"

(* ---- the machine ------------------------------------------------------- *)
CONSTANTS Keys, Names, MaxId

Range(f) == { f[x] : x \in DOMAIN f }
Override(f, g) == [x \in DOMAIN f \cup DOMAIN g |-> IF x \in DOMAIN g THEN g[x] ELSE f[x]]

EntryChoices(targets) ==
    [named : {FALSE}, name : {""}, to : {{}} \cup {{t} : t \in targets}]
    \cup [named : {TRUE}, name : Names, to : {{}} \cup {{t} : t \in targets}]

(* AddCall(keys, k, ok): reserve k fresh ids; pre-assign the keys (injectively, in the block);
   fill entries for `filled` (all of the block when ok); register the named ones by name. *)
AddCall(keys, k, ok) ==
    LET F == nextId .. (nextId + k - 1) IN
    /\ nextId + k - 1 <= MaxId
    /\ Cardinality(keys) <= k
    /\ \E pre \in [keys -> F] :
        /\ \A a, b \in keys : pre[a] = pre[b] => a = b
        /\ \E filled \in SUBSET F :
            /\ ok => filled = F
            /\ ~ok => filled # F
            /\ \E new \in [filled -> EntryChoices(IF ok THEN DOMAIN ents \cup F ELSE DOMAIN ents \cup F)] :
                /\ ok => \A i \in filled : new[i].to \subseteq DOMAIN ents \cup filled
                \* two entries of one call never share a name (the call would have re-used by name)
                /\ \A i, j \in filled : new[i].named /\ new[j].named /\ new[i].name = new[j].name => i = j
                /\ ents' = Override(ents, new)
                /\ nameIdx' = Override(nameIdx,
                      [m \in {new[i].name : i \in {j \in filled : new[j].named}} |->
                          CHOOSE i \in filled : new[i].named /\ new[i].name = m])
                /\ refIdx' = Override(refIdx, pre)
    /\ nextId' = nextId + k
    /\ clean' = (clean /\ ok)

TSINext == \E keys \in SUBSET Keys, k \in 0..2, ok \in BOOLEAN : AddCall(keys, k, ok)
TSISpec == TSIInit /\ [][TSINext]_tsiVars

(* design properties *)
InvAllocBound   == AllocBoundS(State)
InvRefBound     == RefBoundS(State)
InvNameIdxSound == NameIdxSoundS(State)
InvRefIdxSound  == RefIdxSoundS(State)
InvNoDangling   == NoDanglingS(State)
InvNamedIndexed == NamedIndexedS(State)
=============================================================================
