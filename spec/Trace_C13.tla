----------------------------- MODULE Trace_C13 -----------------------------
(***************************************************************************)
(* L4: trace validation for C13.  One "xrust" event per case: the case,    *)
(* the identifier text of the property typed by the annotated definition,  *)
(* and the item rows of the rendered output.  Monitor-style (see           *)
(* Trace_C10).  The semver crate's own verdict travels with each event and *)
(* is compared with Semver!Matches (oracle self-check).                    *)
(***************************************************************************)
EXTENDS RustExt, Json, IOUtils

Rec == ndJsonDeserialize(IOEnv.TRACE)

VARIABLES l, nbad, nself
vars == <<l, nbad, nself>>

Init == l = 1 /\ nbad = 0 /\ nself = 0

SelfCheck(e) == IF e.semver.applicable /\ e.semver.matches # Matches(e.c.ext.req, e.c.cfg.ver)
                THEN 1 ELSE 0

IsEvent(k) == l <= Len(Rec) /\ Rec[l].ev = k /\ l' = l + 1

Diag(e) == C13_Diag(e.c, e.res, e.use_ty, e.items)

(* no finding is recorded for C13 on the pinned tree *)
Known(e, d) == {}

Accept == /\ IsEvent("xrust")
          /\ Diag(Rec[l]) = "ok"
          /\ nself' = nself + SelfCheck(Rec[l])
          /\ UNCHANGED nbad

Reject == /\ IsEvent("xrust")
          /\ LET e == Rec[l] d == Diag(e) IN
               /\ d # "ok"
               /\ PrintT(<<"BAD", ToJson([l |-> l, case |-> e.case, prop |-> "C13", diag |-> d,
                                          known |-> Known(e, d), substituted |-> Substituted(e.c),
                                          expected |-> ExpPath(e.c), use_ty |-> e.use_ty])>>)
               /\ nself' = nself + SelfCheck(e)
          /\ nbad' = nbad + 1

Next == Accept \/ Reject
Spec == Init /\ [][Next]_vars

Finished ==
    /\ PrintT(<<"TRACE-STATS", ToJson([lines |-> Len(Rec),
                                      diameter |-> TLCGet("stats").diameter,
                                      distinct |-> TLCGet("stats").distinct,
                                      generated |-> TLCGet("stats").generated])>>)
    /\ TLCGet("stats").diameter = Len(Rec) + 1
AtEnd == l = Len(Rec) + 1 => PrintT(<<"TRACE-END", ToJson([nbad |-> nbad, nself |-> nself, l |-> l])>>)
=============================================================================
