----------------------------- MODULE Trace_C07 -----------------------------
(***************************************************************************)
(* L4: trace validation for C07.  One "graph" event per case with the      *)
(* generated types' containment graph as recorded from the internal        *)
(* snapshot (hook) and, independently, from a walk of Type::details()      *)
(* through the public API.  Both are judged by Containment!C07_Diag.       *)
(***************************************************************************)
EXTENDS Containment, Json, IOUtils

Rec == ndJsonDeserialize(IOEnv.TRACE)
VARIABLES l, nbad, nself
vars == <<l, nbad, nself>>
Init == l = 1 /\ nbad = 0 /\ nself = 0
IsEvent(k) == l <= Len(Rec) /\ Rec[l].ev = k /\ l' = l + 1

Diag(e) == LET a == C07_Diag(e.n, e.edges, e.res, e.snap)
               b == C07_Diag(e.n, e.edges, e.res, e.pub)
           IN IF a # "ok" THEN a ELSE IF b # "ok" THEN b
              (* ... and what is emitted must say the same: no by-value cycle among the rendered items *)
              ELSE IF e.res = "ok" /\ ~RenderedFinite(e.rendered) THEN "C07/InfiniteSizeAsRendered"
              ELSE "ok"

Known(e, d) == {}

(* the two observations must tell the same story about boxes: a mismatch
   means the hook or the walk is wrong (self-check, not a verdict) *)
SelfCheck(e) == IF e.res = "ok" /\ (BoxCount(e.snap) > 0) # (BoxCount(e.pub) > 0) THEN 1 ELSE 0

Accept == /\ IsEvent("graph") /\ Diag(Rec[l]) = "ok"
          /\ nself' = nself + SelfCheck(Rec[l]) /\ UNCHANGED nbad
Reject == /\ IsEvent("graph")
          /\ LET e == Rec[l] d == Diag(e) IN
               /\ d # "ok"
               /\ PrintT(<<"BAD", ToJson([l |-> l, case |-> e.case, prop |-> "C07", diag |-> d,
                                          known |-> Known(e, d), res |-> e.res,
                                          cycle |-> IF e.res = "ok" THEN OnCycle(ByValue(e.snap), Ids(e.snap)) ELSE {},
                                          boxes |-> IF e.res = "ok" THEN BoxCount(e.snap) ELSE 0])>>)
               /\ nself' = nself + SelfCheck(e)
          /\ nbad' = nbad + 1
Next == Accept \/ Reject
Spec == Init /\ [][Next]_vars
Finished ==
    /\ PrintT(<<"TRACE-STATS", ToJson([lines |-> Len(Rec), diameter |-> TLCGet("stats").diameter,
                                      distinct |-> TLCGet("stats").distinct,
                                      generated |-> TLCGet("stats").generated])>>)
    /\ TLCGet("stats").diameter = Len(Rec) + 1
AtEnd == l = Len(Rec) + 1 => PrintT(<<"TRACE-END", ToJson([nbad |-> nbad, nself |-> nself, l |-> l])>>)
=============================================================================
