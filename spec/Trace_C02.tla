----------------------------- MODULE Trace_C02 -----------------------------
(***************************************************************************)
(* L4: trace validation for C02 and C03 (one pipeline, two properties).    *)
(* Trace of a case:  case ; ingest+ ; render ; compile ; bounds ;          *)
(* (deser | probe_na | probe_panic)* ; endcase.  The "case" event echoes   *)
(* the document and the probe values; verdicts are recomputed here from    *)
(* those, never taken from the case generator's classification.            *)
(***************************************************************************)
EXTENDS ContractSerde, IntSelect, Exclusive, Json, IOUtils

Rec == ndJsonDeserialize(IOEnv.TRACE)

VARIABLES l, nbad, nself,
          cur,        \* the current case (event "case")
          items,      \* item inventory of the rendered output of the current case
          stage       \* "none" | "ingested" | "rejected" | "rendered" | "compiled" | "failed"
vars == <<l, nbad, nself, cur, items, stage>>

Init == l = 1 /\ nbad = 0 /\ nself = 0 /\ cur = << >> /\ items = << >> /\ stage = "none"
IsEvent(k) == l <= Len(Rec) /\ Rec[l].ev = k /\ l' = l + 1

CaseEv == /\ IsEvent("case") /\ cur' = Rec[l] /\ items' = << >> /\ stage' = "none" /\ UNCHANGED <<nbad, nself>>
Ingest == /\ IsEvent("ingest")
          /\ stage' = IF Rec[l].res = "ok" /\ stage # "rejected" THEN "ingested" ELSE "rejected"
          /\ UNCHANGED <<nbad, nself, cur, items>>
Render == /\ IsEvent("render")
          /\ stage' = IF Rec[l].res = "ok" THEN "rendered" ELSE "failed"
          /\ items' = Rec[l].items
          /\ UNCHANGED <<nbad, nself, cur>>
Compile == /\ IsEvent("compile")
           /\ stage' = IF Rec[l].res = "ok" THEN "compiled" ELSE "failed"
           /\ UNCHANGED <<nbad, nself, cur, items>>
Skip == /\ (IsEvent("bounds") \/ IsEvent("probe_na") \/ IsEvent("endcase") \/ IsEvent("intro")
            \/ IsEvent("bounds_decl"))
        /\ UNCHANGED <<nbad, nself, cur, items, stage>>

T == cur.defs["T"]
ProbeVal(e) == cur.probes[e.probe].val

(* ---- known findings (known_findings.json) -------------------------------
   Each predicate describes the failing input semantically; the C10-derived
   one additionally requires that the implementation model of the pinned
   tree (IntSelect) predicts the narrow type. *)
IsIntSchema(Sc) == SHas(Sc, "type") /\ Sc.type = "integer" /\ ~SHas(Sc, "enum")
BoundPt(b) == IF "a" \in DOMAIN b THEN b ELSE SmallAnchorPt(b.v)
ToIntSchema(Sc) ==
    LET keys == { k \in {"minimum", "maximum", "exclusiveMinimum", "exclusiveMaximum"} : SHas(Sc, k) }
        short(k) == CASE k = "minimum" -> "min" [] k = "maximum" -> "max"
                      [] k = "exclusiveMinimum" -> "emin" [] k = "exclusiveMaximum" -> "emax"
    IN [k \in { short(x) : x \in keys } |->
            BoundPt(Sc[CHOOSE x \in keys : short(x) = k])]
       @@ (IF SHas(Sc, "format") THEN [fmt |-> Sc.format] ELSE << >>)
ModelNarrow(Sc, v) ==
    /\ IsIntSchema(Sc) /\ IsInteger(v)
    /\ \A k \in {"minimum", "maximum", "exclusiveMinimum", "exclusiveMaximum"} :
          SHas(Sc, k) => BoundPt(Sc[k]).a # "none"
    /\ LET c == Choose(ToIntSchema(Sc)) IN
          c.res = "ok" /\ ~(IntLe(JBig(TMin(c.ty)), v) /\ IntLe(v, JBig(TMax(c.ty))))
IsObjBranch(B) == SHas(B, "properties")
Closed(B) == SHas(B, "additionalProperties") /\ SHas(B.additionalProperties, "bool") /\ ~B.additionalProperties.bool
HasUndeclaredKey(B, v) == v.t = "obj" /\ \E i \in DOMAIN v.k : v.k[i] \notin DOMAIN B.properties
(* a field of type Box<Option<_>> with a bare serde default and no
   skip_serializing_if: the cycle breaker boxed a shared Option node *)
BoxedOptionField ==
    \E i \in DOMAIN items : items[i].kind = "struct" /\
        \E j \in DOMAIN items[i].fields :
            LET f == items[i].fields[j] IN
            f.head = "::std::boxed::Box" /\ f.head2 = "::std::option::Option" /\ f.has_default /\ f.skip_if = ""
Known(e, prop, d) ==
    LET v == ProbeVal(e) IN
    IF prop = "C03" THEN
      { k \in {"C03-boxed-option-serializes-null", "C03-flattened-anyof-objects-lose-members",
               "C03-null-payload-variant-serialises-as-string"} :
          CASE k = "C03-boxed-option-serializes-null" ->
                 d = "C03/InvalidAfterRoundTrip" /\ BoxedOptionField
                 /\ Contained(Prune(v), Prune(e.out)) /\ JEq(Prune(v), Prune(e.out))
            [] k = "C03-flattened-anyof-objects-lose-members" ->
                 (* an anyOf of overlapping object schemas, which the pinned analysis (rightly) does not
                    prove exclusive and which is rendered as the struct of flattened optional members:
                    serde reads each flattened Option<branch> independently and writes back only what
                    the branches that matched hold *)
                 /\ d \in {"C03/InvalidAfterRoundTrip", "C03/DeclaredDataLost"}
                 /\ SHas(T, "anyOf") /\ AnyOfRoute(T.anyOf, cur.defs) = "flattened"
                 /\ \A i \in DOMAIN T.anyOf : IsObjBranch(T.anyOf[i])
                 /\ \E i \in DOMAIN items : items[i].mod = "" /\ items[i].kind = "struct" /\ items[i].name = "T"
                       /\ Len(items[i].fields) = Len(T.anyOf)
                       /\ \A j \in DOMAIN items[i].fields : items[i].fields[j].flatten
            [] k = "C03-null-payload-variant-serialises-as-string" ->
                 (* an externally tagged branch whose payload schema is null becomes a unit variant:
                    {"N": null} is read and written back as "N" *)
                 /\ d = "C03/InvalidAfterRoundTrip" /\ SHas(T, "oneOf") /\ v.t = "obj" /\ Len(v.k) = 1
                 /\ v.v[1].t = "null" /\ e.out.t = "str"
                 /\ \E i \in DOMAIN T.oneOf : IsObjBranch(T.oneOf[i]) /\ v.k[1] \in DOMAIN T.oneOf[i].properties
                       /\ SHas(T.oneOf[i].properties[v.k[1]], "type") /\ T.oneOf[i].properties[v.k[1]].type = "null" }
    ELSE
    { k \in {"C02-variants-share-property-name", "C02-integer-narrower-than-schema", "C02-mixed-open-closed-variants",
             "C02-open-single-property-branch-as-external-variant", "C02-anyof-string-enums-flattened"} :
      /\ prop = "C02" /\ d = "C02/ValidInstanceRejected"
      /\ CASE k = "C02-integer-narrower-than-schema" -> ModelNarrow(T, v)
           [] k = "C02-variants-share-property-name" ->
                (* two object variants declare a property of the same name with different inline schemas;
                   the inline types get one derived name and the later variant silently reuses the
                   first one's type: the probe is valid for the later variant, its member is not
                   valid for the earlier variant's schema of that name *)
                /\ SHas(T, "oneOf") /\ v.t = "obj"
                /\ \E i, j \in DOMAIN T.oneOf :
                      /\ i < j /\ IsObjBranch(T.oneOf[i]) /\ IsObjBranch(T.oneOf[j])
                      /\ Valid(T.oneOf[j], v, cur.defs)
                      /\ \E pn \in DOMAIN T.oneOf[i].properties \cap DOMAIN T.oneOf[j].properties :
                            /\ T.oneOf[i].properties[pn] # T.oneOf[j].properties[pn]
                            (* pn is rendered as a member of the variants, not consumed as the serde tag *)
                            /\ ~\E it \in DOMAIN items : items[it].mod = "" /\ items[it].name = "T"
                                  /\ \E a \in DOMAIN items[it].serde : items[it].serde[a] = "tag=\"" \o pn \o "\""
                            /\ HasKey(v, pn) /\ ~Valid(T.oneOf[i].properties[pn], Get(v, pn), cur.defs)
           [] k = "C02-mixed-open-closed-variants" ->
                /\ SHas(T, "oneOf")
                /\ \E i \in DOMAIN T.oneOf : IsObjBranch(T.oneOf[i]) /\ Closed(T.oneOf[i])
                /\ \E i \in DOMAIN T.oneOf : /\ IsObjBranch(T.oneOf[i]) /\ ~Closed(T.oneOf[i])
                                               /\ Valid(T.oneOf[i], v, cur.defs)
                                               /\ HasUndeclaredKey(T.oneOf[i], v)
           [] k = "C02-open-single-property-branch-as-external-variant" ->
                /\ SHas(T, "oneOf")
                /\ \E i \in DOMAIN T.oneOf :
                      /\ IsObjBranch(T.oneOf[i]) /\ ~Closed(T.oneOf[i])
                      /\ Cardinality(DOMAIN T.oneOf[i].properties) = 1
                      /\ ReqSet(T.oneOf[i]) = DOMAIN T.oneOf[i].properties
                      /\ Valid(T.oneOf[i], v, cur.defs) /\ HasUndeclaredKey(T.oneOf[i], v)
           [] k = "C02-anyof-string-enums-flattened" ->
                (* an anyOf whose exclusivity the pinned analysis (module Exclusive, the model of
                   util.rs all_mutually_exclusive) does not prove: the rendered T is the struct of
                   flattened optional members.  An anyOf the model proves exclusive is no part of
                   the finding, however it is rendered. *)
                /\ SHas(T, "anyOf") /\ AnyOfRoute(T.anyOf, cur.defs) = "flattened"
                /\ \E i \in DOMAIN items : items[i].mod = "" /\ items[i].kind = "struct" /\ items[i].name = "T"
                      /\ Len(items[i].fields) = Len(T.anyOf)
                      /\ \A j \in DOMAIN items[i].fields : items[i].fields[j].flatten }

Diags(e) == LET v == ProbeVal(e) IN
    << IF C02_OK(T, v, cur.defs, e) THEN "ok" ELSE "C02/ValidInstanceRejected",
       C03_Diag(T, v, cur.defs, e) >>

Report(e, prop, d) ==
    PrintT(<<"BAD", ToJson([l |-> l, case |-> e.case, probe |-> e.probe, prop |-> prop, diag |-> d,
                            fam |-> cur.fam, id |-> cur.id, known |-> Known(e, prop, d),
                            val |-> ProbeVal(e), out |-> e.out])>>)

Deser == /\ IsEvent("deser")
         /\ LET e == Rec[l] ds == Diags(e) IN
              /\ (ds[1] # "ok" => Report(e, "C02", ds[1]))
              /\ (ds[2] # "ok" => Report(e, "C03", ds[2]))
              /\ nbad' = nbad + (IF ds[1] # "ok" THEN 1 ELSE 0) + (IF ds[2] # "ok" THEN 1 ELSE 0)
         /\ UNCHANGED <<nself, cur, items, stage>>

(* a panic inside generated code while probing a valid instance *)
Panic == /\ IsEvent("probe_panic")
         /\ LET e == Rec[l] v == ProbeVal(e) IN
              IF Valid(T, v, cur.defs)
              THEN /\ PrintT(<<"BAD", ToJson([l |-> l, case |-> e.case, probe |-> e.probe, prop |-> "C02",
                                              diag |-> "C02/PanicOnValidInstance", fam |-> cur.fam, id |-> cur.id,
                                              known |-> {}, val |-> v])>>)
                   /\ nbad' = nbad + 1
              ELSE nbad' = nbad
         /\ UNCHANGED <<nself, cur, items, stage>>

Next == CaseEv \/ Ingest \/ Render \/ Compile \/ Skip \/ Deser \/ Panic
Spec == Init /\ [][Next]_vars

Finished ==
    /\ PrintT(<<"TRACE-STATS", ToJson([lines |-> Len(Rec), diameter |-> TLCGet("stats").diameter,
                                      distinct |-> TLCGet("stats").distinct,
                                      generated |-> TLCGet("stats").generated])>>)
    /\ TLCGet("stats").diameter = Len(Rec) + 1
AtEnd == l = Len(Rec) + 1 => PrintT(<<"TRACE-END", ToJson([nbad |-> nbad, nself |-> nself, l |-> l])>>)
=============================================================================
