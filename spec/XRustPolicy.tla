---------------------------- MODULE XRustPolicy ----------------------------
(***************************************************************************)
(* L1 contract for C13: the documented x-rust-type substitution policy.    *)
(*                                                                         *)
(* A case is a record                                                      *)
(*   ext   : [crate, ident : STRING,        \* crate name, and its identifier form ('-' -> '_') *)
(*            head : STRING,                \* first path segment as written *)
(*            rest : STRING,                \* remainder of the path incl. leading "::", "" if none *)
(*            last : STRING,                \* last path segment *)
(*            req  : Seq(Comparator), reqOk : BOOLEAN,  \* requirement (reqOk = it parses) *)
(*            hasVersion : BOOLEAN,         \* the version field is present *)
(*            params : Seq(STRING)]         \* expected identifier text of each parameter *)
(*   cfg   : [kind : {"absent","any","never","version"}, ver : Version,    *)
(*            rename : STRING ("" none), renameIdent : STRING]             *)
(*   policy: {"generate","allow","deny"}                                   *)
(*   def   : STRING    \* the definition key carrying the extension        *)
(***************************************************************************)
EXTENDS Semver, TLC

WellFormedExt(x) ==
    /\ x.hasVersion /\ x.reqOk
    /\ x.rest # ""              \* the path has a "::"
    /\ x.head = x.ident         \* and starts with the crate's identifier

Substituted(c) ==
    /\ WellFormedExt(c.ext)
    /\ \/ c.cfg.kind = "any"
       \/ c.cfg.kind = "version" /\ Matches(c.ext.req, c.cfg.ver)
       \/ c.cfg.kind = "absent" /\ c.policy = "allow"

RECURSIVE Join(_, _)
Join(ps, i) == IF i > Len(ps) THEN ""
               ELSE IF i = Len(ps) THEN ps[i] ELSE ps[i] \o "," \o Join(ps, i + 1)
ParamText(ps) == IF Len(ps) = 0 THEN "" ELSE "<" \o Join(ps, 1) \o ">"

(* the external path that must stand for the schema *)
ExpPath(c) ==
    "::" \o (IF c.cfg.kind \in {"any", "version"} /\ c.cfg.rename # ""
             THEN c.cfg.renameIdent ELSE c.ext.head)
         \o c.ext.rest \o ParamText(c.ext.params)

(* observation: useTy = identifier text of a property typed by the annotated
   definition; items = inventory rows [name, shape, f0] of the output *)
ItemsNamed(items, n) == { i \in DOMAIN items : items[i].name = n }

C13_Substituted(c, useTy, items) ==
    LET own == ItemsNamed(items, c.def) IN
    (* used directly: the names coincide, or the external type takes parameters (a parameterised
       native type never gets a wrapper); "through a transparent newtype named after the definition
       when the names differ" is read as an obligation for the unparameterised case *)
    \/ useTy = ExpPath(c) /\ own = {} /\ (c.def = c.ext.last \/ c.ext.params # << >>)
    \/ /\ c.def # c.ext.last                                \* through a transparent newtype
       /\ useTy = c.def
       /\ \E i \in own : items[i].shape = "tuple" /\ items[i].nf = 1 /\ items[i].f0 = ExpPath(c)
       /\ \A i \in own : items[i].shape = "tuple"

C13_Generated(c, useTy, items) ==
    /\ useTy = c.def
    /\ \E i \in ItemsNamed(items, c.def) : items[i].shape = "named"

C13_Diag(c, res, useTy, items) ==
    IF res # "ok" THEN "C13/Rejected"
    ELSE IF Substituted(c) THEN
         (IF C13_Substituted(c, useTy, items) THEN "ok" ELSE "C13/NotSubstitutedOrWrongPath")
    ELSE (IF C13_Generated(c, useTy, items) THEN "ok" ELSE "C13/SubstitutedAgainstPolicy")
=============================================================================
