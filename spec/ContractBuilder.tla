--------------------------- MODULE ContractBuilder ---------------------------
(***************************************************************************)
(* L1 contract for C18: the builder of a generated struct as a state       *)
(* machine.                                                                *)
(*   slots : [Prop -> {"unset", "ok", "bad"}]    state of each setter slot *)
(*   vals  : [Prop -> value]                      last convertible value   *)
(* Actions: New, Set(p, a) with a convertible or inconvertible argument    *)
(* (the last setter wins), Build.  Build succeeds exactly when every       *)
(* property without a default has been set and no slot holds a failed      *)
(* conversion; a failure names a failing property; a success equals what   *)
(* deserialising the object with the set members gives.                    *)
(***************************************************************************)
EXTENDS Sequences, FiniteSets, Integers, TLC

(* a struct description: props : Seq([name, hasDefault : BOOLEAN]) *)
PropNames(st) == { st.props[i].name : i \in DOMAIN st.props }
HasDefault(st, p) == \E i \in DOMAIN st.props : st.props[i].name = p /\ st.props[i].hasDefault

NewSlots(st) == [p \in PropNames(st) |-> "unset"]

(* one setter call: step = [field, bad : BOOLEAN, vi : value index] *)
ApplySet(slots, step) == [slots EXCEPT ![step.field] = IF step.bad THEN "bad" ELSE "ok"]
ApplyVal(vals, step) == IF step.bad THEN vals ELSE [vals EXCEPT ![step.field] = step.vi]

RECURSIVE Fold(_, _, _, _)
Fold(f(_, _), acc, steps, i) == IF i > Len(steps) THEN acc ELSE Fold(f, f(acc, steps[i]), steps, i + 1)
SlotsAfter(st, steps) == Fold(ApplySet, NewSlots(st), steps, 1)

Failing(st, slots) == { p \in PropNames(st) : slots[p] = "bad" \/ (slots[p] = "unset" /\ ~HasDefault(st, p)) }
BuildSucceeds(st, slots) == Failing(st, slots) = {}
=============================================================================
