------------------------------- MODULE Schema -------------------------------
(***************************************************************************)
(* L0 reference semantics: JSON Schema draft-07 validation for the         *)
(* abstract schemas of SchemaLib, over tagged values (JsonVal).            *)
(* Recognised integer formats are read as ranges (C02's wording).  String  *)
(* formats are annotations here: the generators only produce conforming,   *)
(* canonical strings for formatted types (DESIGN A2/A3).  Patterns come    *)
(* from a small table whose meaning is given as a predicate on character   *)
(* sequences (identical in ECMAScript/regress and Python re).              *)
(* Cross-checked on every run against Python jsonschema (Draft7Validator). *)
(***************************************************************************)
EXTENDS JsonVal, SchemaLib

IntFormatType(f) == CASE f = "int8" -> "i8"   [] f = "uint8" -> "u8"
                      [] f = "int16" -> "i16" [] f = "uint16" -> "u16"
                      [] f = "int" -> "i32"   [] f = "int32" -> "i32"
                      [] f = "uint" -> "u32"  [] f = "uint32" -> "u32"
                      [] f = "int64" -> "i64" [] f = "uint64" -> "u64"
                      [] OTHER -> "none"

TypeOf(v) == CASE v.t = "null" -> "null" [] v.t = "bool" -> "boolean"
               [] v.t \in {"int", "big"} -> "integer" [] v.t = "num" -> "number"
               [] v.t = "str" -> "string" [] v.t = "arr" -> "array" [] v.t = "obj" -> "object"
               [] OTHER -> "other"
TypeMatches(ty, v) == ty = TypeOf(v) \/ (ty = "number" /\ TypeOf(v) = "integer")
(* "type": "x" is the field type, "type": ["x", ...] is the field types *)
TypeSeq(S) == IF SHas(S, "type") THEN << S.type >> ELSE IF SHas(S, "types") THEN S.types ELSE << >>
TypeOk(S, v) == \E i \in DOMAIN TypeSeq(S) : TypeMatches(TypeSeq(S)[i], v)

LowerAscii == {"a", "b", "c", "d", "e", "f", "g", "h", "i", "j", "k", "l", "m", "n", "o", "p", "q", "r", "s",
               "t", "u", "v", "w", "x", "y", "z"}
(* the pattern table *)
PatOk(p, cs) ==
    CASE p = "^a+$"      -> Len(cs) >= 1 /\ \A i \in DOMAIN cs : cs[i] = "a"
      [] p = "^[a-z]*$"  -> \A i \in DOMAIN cs : cs[i] \in LowerAscii
      [] p = "b"         -> \E i \in DOMAIN cs : cs[i] = "b"
      [] p = "^ab"       -> Len(cs) >= 2 /\ cs[1] = "a" /\ cs[2] = "b"

(* integer value vs lattice-point or small-int bounds *)
BoundVal(b) == IF "a" \in DOMAIN b THEN JBig(b) ELSE b     \* a bound is a point or a tagged int
NumLe(a, b) == IF IsInteger(a) /\ IsInteger(b) THEN IntLe(a, b)
               ELSE LET x == IF a.t = "num" THEN a.h ELSE 2 * a.v
                        y == IF b.t = "num" THEN b.h ELSE 2 * b.v IN x <= y
NumLt(a, b) == NumLe(a, b) /\ ~JEq(a, b)

(* recognised string formats are assertions (DESIGN A2); their syntax is not
   modelled, so a formatted string counts as valid only when it is one of the
   canonical samples the generators use (an under-approximation: other
   strings carry no obligation either way) *)
RecognisedStrFormat(f) == f \in {"uuid", "date", "date-time", "ip", "ipv4", "ipv6"}
StrFormatSamples(f) ==
    LET rep(tok, n) == [i \in 1 .. n |-> tok] IN
    CASE f = "uuid" -> << rep("0", 8) \o <<"-">> \o rep("0", 4) \o <<"-">> \o rep("0", 4) \o <<"-">>
                          \o rep("0", 4) \o <<"-">> \o rep("0", 11) \o <<"1">> >>
      [] f = "date" -> << <<"2","0","2","0","-","0","1","-","0","2">> >>
      [] f = "date-time" -> << <<"2","0","2","0","-","0","1","-","0","2","T","0","3",":","0","4",":","0","5","Z">> >>
      [] f = "ip" -> << <<"1",".","2",".","3",".","4">>, <<":",":","1">> >>
      [] f = "ipv4" -> << <<"1",".","2",".","3",".","4">> >>
      [] f = "ipv6" -> << <<":",":","1">> >>
      [] OTHER -> << >>
StrFormatOk(f, v) == v.t # "str" \/ ~RecognisedStrFormat(f)
                     \/ \E i \in DOMAIN StrFormatSamples(f) : StrFormatSamples(f)[i] = v.c

InFormatRange(f, v) ==
    LET ty == IntFormatType(f) IN
    ty = "none" \/ ~IsInteger(v) \/
    (IntLe(JBig(TMin(ty)), v) /\ IntLe(v, JBig(TMax(ty))))

AllDistinct(vs) == \A i, j \in DOMAIN vs : i < j => ~JEq(vs[i], vs[j])

RECURSIVE Valid(_, _, _)
Valid(S, v, defs) ==
    IF SHas(S, "bool") THEN S.bool
    ELSE
    /\ (SHas(S, "ref") => Valid(defs[S.ref], v, defs))
    /\ (SHas(S, "type") \/ SHas(S, "types") => TypeOk(S, v))
    /\ (SHas(S, "enum") => \E i \in DOMAIN S.enum : JEq(S.enum[i], v))
    /\ (SHas(S, "const") => JEq(S.const, v))
    /\ (SHas(S, "format") => InFormatRange(S.format, v) /\ StrFormatOk(S.format, v))
    /\ (IsNumber(v) =>
          /\ (SHas(S, "minimum") => NumLe(BoundVal(S.minimum), v))
          /\ (SHas(S, "maximum") => NumLe(v, BoundVal(S.maximum)))
          /\ (SHas(S, "exclusiveMinimum") => NumLt(BoundVal(S.exclusiveMinimum), v))
          /\ (SHas(S, "exclusiveMaximum") => NumLt(v, BoundVal(S.exclusiveMaximum))))
    /\ (v.t = "str" =>
          /\ (SHas(S, "minLength") => Len(v.c) >= S.minLength)
          /\ (SHas(S, "maxLength") => Len(v.c) <= S.maxLength)
          /\ (SHas(S, "pattern") => PatOk(S.pattern, v.c)))
    /\ (v.t = "obj" =>
          /\ (\A r \in ReqSet(S) : HasKey(v, r))
          /\ (SHas(S, "minProperties") => Len(v.k) >= S.minProperties)
          /\ (SHas(S, "maxProperties") => Len(v.k) <= S.maxProperties)
          /\ \A i \in DOMAIN v.k :
               IF SHas(S, "properties") /\ v.k[i] \in DOMAIN S.properties
               THEN Valid(S.properties[v.k[i]], v.v[i], defs)
               ELSE (SHas(S, "additionalProperties") => Valid(S.additionalProperties, v.v[i], defs)))
    /\ (v.t = "arr" =>
          /\ (SHas(S, "minItems") => Len(v.v) >= S.minItems)
          /\ (SHas(S, "maxItems") => Len(v.v) <= S.maxItems)
          /\ (SHas(S, "uniqueItems") /\ S.uniqueItems => AllDistinct(v.v))
          /\ (SHas(S, "items") => \A i \in DOMAIN v.v : Valid(S.items, v.v[i], defs))
          /\ (SHas(S, "itemsList") =>
                \A i \in DOMAIN v.v :
                   IF i <= Len(S.itemsList) THEN Valid(S.itemsList[i], v.v[i], defs)
                   ELSE (SHas(S, "additionalItems") => Valid(S.additionalItems, v.v[i], defs))))
    /\ (SHas(S, "allOf") => \A i \in DOMAIN S.allOf : Valid(S.allOf[i], v, defs))
    /\ (SHas(S, "anyOf") => \E i \in DOMAIN S.anyOf : Valid(S.anyOf[i], v, defs))
    /\ (SHas(S, "oneOf") => Cardinality({ i \in DOMAIN S.oneOf : Valid(S.oneOf[i], v, defs) }) = 1)
    /\ (SHas(S, "not") => ~Valid(S["not"], v, defs))

(* members of v the schema does not declare, anywhere: used by C03's
   "instances containing only declared members" *)
RECURSIVE OnlyDeclared(_, _, _)
OnlyDeclared(S, v, defs) ==
    IF SHas(S, "bool") THEN TRUE
    ELSE IF SHas(S, "ref") THEN OnlyDeclared(defs[S.ref], v, defs)
    ELSE
    (* the members of an object are judged by S itself only when S describes an object; a pure
       oneOf / anyOf / allOf wrapper leaves them to its branches *)
    /\ (v.t = "obj" /\ (SHas(S, "properties") \/ SHas(S, "additionalProperties")
                        \/ ~(SHas(S, "oneOf") \/ SHas(S, "anyOf") \/ SHas(S, "allOf"))) =>
          \A i \in DOMAIN v.k :
             IF SHas(S, "properties") /\ v.k[i] \in DOMAIN S.properties
             THEN OnlyDeclared(S.properties[v.k[i]], v.v[i], defs)
             ELSE SHas(S, "additionalProperties") /\ ~SHas(S.additionalProperties, "bool")
                  /\ OnlyDeclared(S.additionalProperties, v.v[i], defs))
    /\ (v.t = "arr" =>
          /\ (SHas(S, "items") => \A i \in DOMAIN v.v : OnlyDeclared(S.items, v.v[i], defs))
          /\ (SHas(S, "itemsList") => \A i \in DOMAIN v.v :
                i <= Len(S.itemsList) => OnlyDeclared(S.itemsList[i], v.v[i], defs)))
    /\ (SHas(S, "oneOf") => \E i \in DOMAIN S.oneOf :
            Valid(S.oneOf[i], v, defs) /\ OnlyDeclared(S.oneOf[i], v, defs))
    /\ (SHas(S, "anyOf") => \E i \in DOMAIN S.anyOf :
            Valid(S.anyOf[i], v, defs) /\ OnlyDeclared(S.anyOf[i], v, defs))
    (* allOf: every member must be declared by some branch (for objects), each branch judging the
       members it declares *)
    /\ (SHas(S, "allOf") /\ v.t = "obj" =>
          \A i \in DOMAIN v.k : \E b \in DOMAIN S.allOf :
              LET B == IF SHas(S.allOf[b], "ref") THEN defs[S.allOf[b].ref] ELSE S.allOf[b] IN
              SHas(B, "properties") /\ v.k[i] \in DOMAIN B.properties)
=============================================================================
