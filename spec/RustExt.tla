------------------------------ MODULE RustExt ------------------------------
(***************************************************************************)
(* L2 implementation model: typify-impl/src/rust_extension.rs:24-103       *)
(* (convert_rust_extension), in the order of its tests.  Result: "none"    *)
(* (fall through to structural conversion) or the native path text.        *)
(***************************************************************************)
EXTENDS XRustPolicy

Convert(c) ==
    LET x == c.ext IN
    IF ~x.hasVersion THEN "none"                       \* serde: missing field
    ELSE IF ~x.reqOk THEN "none"                       \* VersionReq::parse failed
    ELSE IF x.rest = "" THEN "none"                    \* path.find("::")?
    ELSE IF x.ident # x.head THEN "none"               \* crate_ident != path[..sep]
    ELSE IF c.cfg.kind # "absent" THEN
         IF c.cfg.kind = "any" \/ (c.cfg.kind = "version" /\ Matches(x.req, c.cfg.ver))
         THEN "::" \o (IF c.cfg.rename # "" THEN c.cfg.renameIdent ELSE x.head)
                   \o x.rest \o ParamText(x.params)
         ELSE "none"
    ELSE IF c.policy = "allow" THEN "::" \o x.head \o x.rest \o ParamText(x.params)
    ELSE "none"

(* model judged by the contract: the use-site path and item shape the model
   implies (lib.rs:713-745: native with matching name is used directly,
   otherwise wrapped in a newtype named after the definition) *)
ModelOK(c) ==
    LET r == Convert(c) IN
    IF Substituted(c) THEN r = ExpPath(c) ELSE r = "none"
=============================================================================
