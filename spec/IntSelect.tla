----------------------------- MODULE IntSelect -----------------------------
(***************************************************************************)
(* L2 implementation model: typify-impl/src/convert.rs:969-1169            *)
(* (convert_integer), transcribed arm by arm.  Every number is an f64 in   *)
(* the implementation (schemars stores bounds as f64; the type limits are  *)
(* cast with `as f64`), which Lattice!F64 reproduces.                      *)
(* Options are sequences of length 0 or 1.                                 *)
(***************************************************************************)
EXTENDS IntSchema

None == <<>>
Some(x) == <<x>>
IsSome(o) == Len(o) = 1
Get(o) == o[1]

(* convert.rs:995-1068, in the listed order *)
Formats == <<
  [fmt |-> "int8",   ty |-> "i8",  nz |-> "::std::num::NonZeroU8"],
  [fmt |-> "uint8",  ty |-> "u8",  nz |-> "::std::num::NonZeroU8"],
  [fmt |-> "int16",  ty |-> "i16", nz |-> "::std::num::NonZeroU16"],
  [fmt |-> "uint16", ty |-> "u16", nz |-> "::std::num::NonZeroU16"],
  [fmt |-> "int",    ty |-> "i32", nz |-> "::std::num::NonZeroU32"],
  [fmt |-> "int32",  ty |-> "i32", nz |-> "::std::num::NonZeroU32"],
  [fmt |-> "uint",   ty |-> "u32", nz |-> "::std::num::NonZeroU32"],
  [fmt |-> "uint32", ty |-> "u32", nz |-> "::std::num::NonZeroU32"],
  [fmt |-> "int64",  ty |-> "i64", nz |-> "::std::num::NonZeroU64"],
  [fmt |-> "uint64", ty |-> "u64", nz |-> "::std::num::NonZeroU64"] >>
IMin(i) == F64(TMin(Formats[i].ty))
IMax(i) == F64(TMax(Formats[i].ty))

(* convert.rs:975-991 *)
Min0(S) == IF ~Has(S, "min") /\ ~Has(S, "emin") THEN None
           ELSE IF ~Has(S, "min") THEN Some(FAdd1(F64(S.emin)))
           ELSE IF ~Has(S, "emin") THEN Some(F64(S.min))
           ELSE Some(PMax(F64(S.min), FAdd1(F64(S.emin))))
Max0(S) == IF ~Has(S, "max") /\ ~Has(S, "emax") THEN None
           ELSE IF ~Has(S, "max") THEN Some(FSub1(F64(S.emax)))
           ELSE IF ~Has(S, "emax") THEN Some(F64(S.max))
           ELSE Some(PMin(F64(S.max), FSub1(F64(S.emax))))

FmtIdx(S) == IF Has(S, "fmt") /\ \E i \in DOMAIN Formats : Formats[i].fmt = S.fmt
             THEN Some(CHOOSE i \in DOMAIN Formats : Formats[i].fmt = S.fmt)
             ELSE None

IsOne(o) == IsSome(o) /\ Eq(Get(o), One)

(* the three reverse searches, convert.rs:1126-1157; result Option(type) *)
RevFind(P(_)) ==
    LET hits == { i \in DOMAIN Formats : P(i) }
    IN IF hits = {} THEN None
       ELSE Some(CHOOSE i \in hits : \A j \in hits : j <= i)
Search(min, max) ==
    IF ~IsSome(min) /\ ~IsSome(max) THEN None
    ELSE IF ~IsSome(min) THEN
        LET r == RevFind(LAMBDA i : Eq(IMax(i), Get(max)))
        IN IF IsSome(r) THEN Some(Formats[Get(r)].ty) ELSE None
    ELSE IF ~IsSome(max) THEN
        IF IsOne(min) THEN Some(Formats[Len(Formats)].nz)
        ELSE LET r == RevFind(LAMBDA i : Eq(IMin(i), Get(min)))
             IN IF IsSome(r) THEN Some(Formats[Get(r)].ty) ELSE None
    ELSE
        IF IsOne(min) THEN Some(Formats[Len(Formats)].nz)
        ELSE LET r == RevFind(LAMBDA i : Eq(IMax(i), Get(max)) /\ Eq(IMin(i), Get(min)))
             IN IF IsSome(r) THEN Some(Formats[Get(r)].ty) ELSE None

(* second default check, convert.rs:1110-1123 (numeric defaults only) *)
DefaultOk2(S, min, max) ==
    ~Has(S, "def") \/
    LET d == F64(S.def) IN
      /\ (IsSome(min) => Le(Get(min), d))
      /\ (IsSome(max) => Le(d, Get(max)))

(* the whole function: result [res |-> "ok"|"err", ty |-> STRING] *)
Choose(S) ==
    LET min0 == Min0(S)
        max0 == Max0(S)
        fi   == FmtIdx(S)
        mult == Has(S, "mult")
    IN
    IF IsSome(fi) /\ ~mult
         /\ (~IsSome(min0) \/ Le(IMin(Get(fi)), Get(min0)))
         /\ (~IsSome(max0) \/ Le(Get(max0), IMax(Get(fi))))
    THEN (* convert.rs:1077-1097 *)
         IF Has(S, "def") /\ (Lt(F64(S.def), IMin(Get(fi))) \/ Lt(IMax(Get(fi)), F64(S.def)))
         THEN [res |-> "err", ty |-> ""]
         ELSE IF IsOne(min0) THEN [res |-> "ok", ty |-> Formats[Get(fi)].nz]
         ELSE [res |-> "ok", ty |-> Formats[Get(fi)].ty]
    ELSE
      LET min1 == IF IsSome(fi) /\ ~IsSome(min0) THEN Some(IMin(Get(fi))) ELSE min0
          max1 == IF IsSome(fi) /\ ~IsSome(max0) THEN Some(IMax(Get(fi))) ELSE max0
      IN IF ~DefaultOk2(S, min1, max1) THEN [res |-> "err", ty |-> ""]
         ELSE LET t == Search(min1, max1)
              IN IF IsSome(t) THEN [res |-> "ok", ty |-> Get(t)]
                 ELSE [res |-> "ok", ty |-> "i64"]
=============================================================================
