----------------------------- MODULE FamiliesE -----------------------------
(***************************************************************************)
(* L3 data: the enforced-construct universe (C05) and the string-like      *)
(* universe (C11).  Enforced(S): every constraint of S is of a kind the    *)
(* property lists as enforced (string length in scalar values, pattern,    *)
(* enum membership, not-enum deny lists, required, closed objects, tuple   *)
(* arity, tag values, JSON type of scalars), so that ANY invalid instance  *)
(* violates only enforced constraints.                                     *)
(***************************************************************************)
EXTENDS FamiliesG

UnenforcedKeys == {"minimum", "maximum", "exclusiveMinimum", "exclusiveMaximum", "multipleOf", "format",
                   "uniqueItems", "minProperties", "maxProperties", "propertyNames", "patternProperties",
                   "anyOf", "allOf", "contains", "const", "default", "additionalItems"}

RECURSIVE Enforced(_, _, _)
Enforced(S, defs, d) ==
    IF SHas(S, "bool") THEN TRUE
    ELSE IF SHas(S, "ref") THEN (d > 0 /\ Enforced(defs[S.ref], defs, d - 1))
    ELSE
    /\ DOMAIN S \cap UnenforcedKeys = {}
    /\ (SHas(S, "not") => DOMAIN S["not"] = {"enum"})
    /\ (SHas(S, "minItems") \/ SHas(S, "maxItems") =>
          SHas(S, "itemsList") /\ SHas(S, "minItems") /\ SHas(S, "maxItems")
          /\ S.minItems = Len(S.itemsList) /\ S.maxItems = Len(S.itemsList))
    /\ (SHas(S, "properties") => \A k \in DOMAIN S.properties : Enforced(S.properties[k], defs, d))
    /\ (SHas(S, "additionalProperties") => Enforced(S.additionalProperties, defs, d))
    /\ (SHas(S, "items") => Enforced(S.items, defs, d))
    /\ (SHas(S, "itemsList") => \A i \in DOMAIN S.itemsList : Enforced(S.itemsList[i], defs, d))
    /\ (SHas(S, "oneOf") => \A i \in DOMAIN S.oneOf : Enforced(S.oneOf[i], defs, d))

(* additional enforced documents: multi-byte boundaries, deny lists *)
E1 == << Doc("E1", "enum-mb-max1", [type |-> "string", enum |-> <<JS(<<"<e9>">>), JS(<<"a","a">>), JS(<<"b">>)>>, maxLength |-> 1]),
         Doc("E1", "enum-mb-min2", [type |-> "string", enum |-> <<JS(<<"<e9>">>), JS(<<"a","a">>), JS(<<"<e9>","<e9>">>)>>, minLength |-> 2]),
         Doc("E1", "len-mb-4byte", [type |-> "string", minLength |-> 1, maxLength |-> 1]),
         Doc("E1", "deny-typed", [type |-> "string", not |-> [enum |-> <<JS(<<"a">>), JS(<<"b">>)>>]]),
         Doc("E1", "deny-untyped", [not |-> [enum |-> <<JS(<<"a">>), JS(<<"a","b">>)>>]]),
         Doc("E1", "deny-ints", [not |-> [enum |-> <<JInt(1), JInt(2)>>]]),
         Doc("E1", "untyped-int-enum", [enum |-> <<JInt(1), JInt(2), JInt(3)>>]),
         Doc("E1", "untyped-int-enum-null", [enum |-> <<JInt(1), JInt(2), JNull>>]),
         Doc("E1", "untyped-int-enum-prop", SObj(Props1("level", [enum |-> <<JInt(1), JInt(2), JInt(3)>>]), {"level"})),
         Doc("E1", "int-enum", [type |-> "integer", enum |-> <<JInt(0), JInt(1), JInt(-1)>>]),
         Doc("E1", "closed-nested", SObjClosed(Props2("in", SObjClosed(Props1("q", SInt), {"q"}), "s", [type |-> "string", minLength |-> 1]), {"in"})),
         Doc("E1", "tuple-of-constrained", STuple(<<[type |-> "string", maxLength |-> 1], SInt>>)),
         Doc2("E1", "prop-of-enum", SObj(Props1("c", SRef("C")), {"c"}), "C", EnumS(<<JS(<<"r">>), JS(<<"g">>)>>)),
         (* enumerated strings under a pattern and a length bound: both filter the values *)
         Doc("E1", "enum-pattern-max", [type |-> "string", enum |-> <<JS(<<"a","b">>), JS(<<"a","b","c">>), JS(<<"a","b","c","d","e","f">>), JS(<<"x","y">>)>>,
                                        pattern |-> "^ab", maxLength |-> 3]),
         Doc("E1", "enum-pattern-min", [type |-> "string", enum |-> <<JS(<<"a">>), JS(<<"a","a","a">>), JS(<<"b","b","b">>)>>,
                                        pattern |-> "^a+$", minLength |-> 3]),
         Doc("E1", "pattern-min", [type |-> "string", pattern |-> "^a+$", minLength |-> 2]) >>

(* every combination of minLength, maxLength (0..3 or absent, min <= max) and pattern (or none) *)
LenOpts == {-1, 0, 1, 2, 3}
PatOpts == <<"", "^a+$", "^[a-z]*$", "b", "^ab">>
NumTok(n) == CASE n = -1 -> "x" [] n = 0 -> "0" [] n = 1 -> "1" [] n = 2 -> "2" [] n = 3 -> "3" [] n = 4 -> "4"
StrDoc(mn, mx, pi) ==
    Doc("E2", "min" \o NumTok(mn) \o "-max" \o NumTok(mx) \o "-pat" \o NumTok(pi - 1),
        [type |-> "string"]
        @@ (IF mn >= 0 THEN [minLength |-> mn] ELSE << >>)
        @@ (IF mx >= 0 THEN [maxLength |-> mx] ELSE << >>)
        @@ (IF pi > 1 THEN [pattern |-> PatOpts[pi]] ELSE << >>))
E2 == LET combos == { <<mn, mx, pi>> \in LenOpts \X LenOpts \X (1 .. 5) :
                        (mn = -1 \/ mx = -1 \/ mn <= mx) /\ (mn >= 0 \/ mx >= 0 \/ pi > 1) }
          cs == SetToSeq(combos)
      IN [i \in DOMAIN cs |-> StrDoc(cs[i][1], cs[i][2], cs[i][3])]

EnforcedUniverse == SelectSeq(QuickUniverse \o G5, LAMBDA dd : Enforced(dd.defs["T"], dd.defs, 3)) \o E1 \o E2

(* string-like documents for C11: wire form always a JSON string *)
S1 == << Doc("S1", "enum-odd-case", EnumS(<<JS(<<"r","e","d">>), JS(<<"R","E","D">>), JS(<<"R","e","d","d">>)>>)),
         Doc("S1", "enum-renamed", EnumS(<<JS(<<"a","-","b">>), JS(<<"a",".","c">>), JS(<<"1","2","3">>), JS(<<" ","x">>)>>)),
         Doc("S1", "enum-keywords", EnumS(<<JS(<<"t","y","p","e">>), JS(<<"i","m","p","l">>), JS(<<"S","e","l","f">>)>>)),
         Doc("S1", "newtype-plain", SStr),
         Doc2("S1", "alias-plain", SRef("N"), "N", SStr),
         (* aliases of generated string types: the alias newtype proxies its conversions *)
         Doc2("S1", "alias-enum", SRef("N"), "N", EnumS(<<JS(<<"r","e","d">>), JS(<<"g">>)>>)),
         Doc2("S1", "alias-constrained", SRef("N"), "N", [type |-> "string", minLength |-> 2, maxLength |-> 3]),
         Doc2("S1", "alias-pattern", SRef("N"), "N", [type |-> "string", pattern |-> "^a+$"]),
         Doc("S1", "untagged-strs", SOneOf(<< [type |-> "string", format |-> "uuid"], [type |-> "string", format |-> "ipv4"] >>)),
         Doc2("S1", "untagged-newtypes", SOneOf(<< SRef("A"), SRef("B") >>) @@ << >>, "A", [type |-> "string", pattern |-> "^a+$"]),
         Doc("S1", "untagged-same-type-twice", SOneOf(<< Titled([type |-> "string", format |-> "uuid"], "Id"),
                                                         Titled([type |-> "string", format |-> "uuid"], "LegacyId"),
                                                         Titled([type |-> "string", maxLength |-> 3], "Name") >>)),
         Doc("S1", "untagged-two-plain-strings", SOneOf(<< Titled([type |-> "string", pattern |-> "^a+$"], "As"),
                                                           Titled([type |-> "string", pattern |-> "^a+$"], "AlsoAs") >>)),
         Doc("S1", "untagged-enum-and-uuid", SOneOf(<< EnumS(<<JS(<<"x">>), JS(<<"y">>)>>), [type |-> "string", format |-> "uuid"] >>)) >>
FixS1 == [i \in DOMAIN S1 |->
            IF S1[i].id = "untagged-newtypes"
            THEN [S1[i] EXCEPT !.defs = @ @@ ("B" :> [type |-> "string", pattern |-> "b"])]
            ELSE S1[i]]

(* S2: string-like documents under a conversion setting (format "path" -> support::Skewed, declared
   with FromStr only; its Display is not its wire form) *)
S2 == << Doc("S2", "conv-untagged-uuid", SOneOf(<< PathS, [type |-> "string", format |-> "uuid"] >>)),
         Doc("S2", "conv-untagged-date", SOneOf(<< PathS, [type |-> "string", format |-> "date"] >>)),
         Doc2("S2", "conv-alias-of-untagged", SRef("U"), "U", SOneOf(<< PathS, [type |-> "string", format |-> "uuid"] >>)),
         Doc("S2", "conv-plain", PathS),
         Doc2("S2", "conv-alias", SRef("P"), "P", PathS) >>
S2Settings == [builder |-> FALSE,
               convert |-> << [schema |-> PathS, ty |-> "crate::support::Skewed", impls |-> <<"FromStr">>] >>]

IsStringDoc(dd) == LET t == dd.defs["T"] IN
    \/ (SHas(t, "type") /\ t.type = "string")
    \/ (SHas(t, "not") /\ SHas(t["not"], "enum") /\ \A i \in DOMAIN t["not"].enum : t["not"].enum[i].t = "str")
StringUniverse == SelectSeq(QuickUniverse \o E1 \o E2 \o G5, IsStringDoc) \o FixS1 \o S2

(* probe strings for string-like types: every string candidate of the
   schema plus fixed extras *)
ExtraStrings == << <<"a">>, << >>, <<"A">>, <<"r","e","d">>, <<"R","e","d">>, <<"x">>, <<"b">>,
                   <<"a","a">>, <<"<e9>">>, <<"1",".","2",".","3",".","4">> >>
=============================================================================
