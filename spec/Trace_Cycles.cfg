SPECIFICATION Spec
INVARIANT AtEnd
INVARIANT TAcyclic
INVARIANT TOnlyCycles
INVARIANT TActiveIsStack
POSTCONDITION Finished
CHECK_DEADLOCK FALSE
