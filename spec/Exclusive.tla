----------------------------- MODULE Exclusive -----------------------------
(***************************************************************************)
(* L2 implementation model: typify's conservative mutual-exclusivity       *)
(* analysis (typify-impl/src/util.rs: all_mutually_exclusive,              *)
(* schemas_mutually_exclusive, object_/array_schemas_mutually_exclusive,   *)
(* constant_string_value, resolve) and the decision convert_any_of takes   *)
(* from it (typify-impl/src/convert.rs, enums.rs maybe_option).            *)
(*                                                                         *)
(* One operator per function of the code, clause for clause and in the     *)
(* code's match order.  A schemars SchemaObject groups keywords into       *)
(* optional sub-records (metadata, number, string, array, object, ...)     *)
(* that are None when every keyword of the group is absent or default;     *)
(* the Has* operators below reproduce that grouping for abstract schemas.  *)
(*                                                                         *)
(* Results are "yes" / "no" / "panic" ("panic": the code unwraps a missing *)
(* map entry or reaches todo!()).                                          *)
(*                                                                         *)
(* Used (1) by trace specifications to tell an anyOf that the pinned       *)
(* analysis does not prove exclusive (a recorded finding when the branches *)
(* are in fact exclusive) from one it does prove exclusive (then a         *)
(* flattened rendering is a divergence of the code from this model), and   *)
(* (2) by MC_Excl, which checks the analysis itself for soundness against  *)
(* the reference semantics: proven exclusive => no candidate instance is   *)
(* valid for two branches.                                                 *)
(***************************************************************************)
EXTENDS Schema

MetaKeys == {"title", "titleChars", "description", "default", "deprecated", "readOnly", "writeOnly", "examples", "id"}
SubKeys  == {"allOf", "anyOf", "oneOf", "not", "if", "then", "else"}
NumKeys  == {"multipleOf", "maximum", "exclusiveMaximum", "minimum", "exclusiveMinimum"}
StrKeys  == {"maxLength", "minLength", "pattern"}
ArrKeys  == {"items", "itemsList", "additionalItems", "maxItems", "minItems", "uniqueItems", "contains"}
ObjKeys  == {"maxProperties", "minProperties", "required", "properties", "propsList", "patternProperties",
             "additionalProperties", "propertyNames"}

IsBoolS(S) == SHas(S, "bool")
HasMeta(S) == DOMAIN S \cap MetaKeys # {}
HasType(S) == SHas(S, "type") \/ SHas(S, "types")
HasSubs(S) == DOMAIN S \cap SubKeys # {}
HasNum(S)  == DOMAIN S \cap NumKeys # {}
HasStr(S)  == DOMAIN S \cap StrKeys # {}
HasArr(S)  == DOMAIN S \cap ArrKeys # {}
(* required: [] and properties: {} are the defaults of ObjectValidation *)
HasObj(S)  == \E k \in DOMAIN S \cap ObjKeys :
                 CASE k = "required" -> Len(S.required) > 0
                   [] k = "properties" -> DOMAIN S.properties # {}
                   [] k = "propsList" -> Len(S.propsList) > 0
                   [] OTHER -> TRUE
HasRef(S)  == SHas(S, "ref")

(* SchemaObject { metadata: None, subschemas: Some(_), everything else None } *)
PureSubs(S) == /\ ~IsBoolS(S) /\ ~HasMeta(S) /\ ~HasType(S) /\ ~SHas(S, "format") /\ ~SHas(S, "enum")
               /\ ~SHas(S, "const") /\ HasSubs(S) /\ ~HasNum(S) /\ ~HasStr(S) /\ ~HasArr(S) /\ ~HasObj(S)
               /\ ~HasRef(S)

(* the InstanceType of an enumerated JSON value: every number is Number *)
ValueInstanceType(v) == CASE v.t = "null" -> "null" [] v.t = "bool" -> "boolean"
                          [] v.t \in {"int", "big", "num"} -> "number" [] v.t = "str" -> "string"
                          [] v.t = "arr" -> "array" [] v.t = "obj" -> "object" [] OTHER -> "other"

SingleT(S) == SHas(S, "type")
VecT(S)    == ~SHas(S, "type") /\ SHas(S, "types")
SeqSet(q)  == { q[i] : i \in DOMAIN q }

And3(a, b) == IF a = "panic" \/ b = "panic" THEN "panic" ELSE IF a = "yes" /\ b = "yes" THEN "yes" ELSE "no"
Not3(a) == CASE a = "yes" -> "no" [] a = "no" -> "yes" [] OTHER -> "panic"
Of(b) == IF b THEN "yes" ELSE "no"
(* Iterator::any / Iterator::all over a sequence of three-valued results,
   short-circuiting left to right as the code does *)
RECURSIVE AnySeq(_), AllSeq(_)
AnySeq(q) == IF q = << >> THEN "no" ELSE IF Head(q) = "yes" THEN "yes" ELSE IF Head(q) = "panic" THEN "panic" ELSE AnySeq(Tail(q))
AllSeq(q) == IF q = << >> THEN "yes" ELSE IF Head(q) = "no" THEN "no" ELSE IF Head(q) = "panic" THEN "panic" ELSE AllSeq(Tail(q))

(* constant_string_value: <<TRUE, chars>> or <<FALSE>> *)
ConstStr(S) ==
    LET rest == /\ ~SHas(S, "format") /\ ~HasSubs(S) /\ ~HasNum(S) /\ ~HasStr(S) /\ ~HasArr(S) /\ ~HasObj(S) /\ ~HasRef(S)
        str(v) == IF v.t = "str" THEN <<TRUE, v.c>> ELSE <<FALSE>>
    IN IF IsBoolS(S) \/ ~rest THEN <<FALSE>>
       ELSE IF SingleT(S) /\ S.type = "string" /\ SHas(S, "enum") /\ ~SHas(S, "const") /\ Len(S.enum) = 1 THEN str(S.enum[1])
       ELSE IF ~HasType(S) /\ SHas(S, "enum") /\ ~SHas(S, "const") /\ Len(S.enum) = 1 THEN str(S.enum[1])
       ELSE IF SingleT(S) /\ S.type = "string" /\ ~SHas(S, "enum") /\ SHas(S, "const") THEN str(S.const)
       ELSE IF ~HasType(S) /\ ~SHas(S, "enum") /\ SHas(S, "const") THEN str(S.const)
       ELSE <<FALSE>>

PropsOf(S) == IF SHas(S, "properties") THEN S.properties ELSE << >>

(* object_schemas_mutually_exclusive *)
ObjX(a, b) ==
    LET ap == PropsOf(a) bp == PropsOf(b) ar == ReqSet(a) br == ReqSet(b) IN
    IF DOMAIN ap = {} \/ DOMAIN bp = {} THEN "no"
    ELSE IF ~(ar \subseteq DOMAIN bp) \/ ~(br \subseteq DOMAIN ap) THEN "yes"
    ELSE IF ~(ar \subseteq DOMAIN ap) \/ ~(br \subseteq DOMAIN bp) THEN "panic"   \* a_properties.get(name).unwrap()
    ELSE LET aa == { <<n, ConstStr(ap[n])[2]>> : n \in { m \in ar : ConstStr(ap[m])[1] } }
             bb == { <<n, ConstStr(bp[n])[2]>> : n \in { m \in br : ConstStr(bp[m])[1] } }
         IN Of(~(aa \subseteq bb) /\ ~(bb \subseteq aa))

(* the SchemaObject shapes the object / array arms insist on *)
ObjPlain(S) == /\ ~SHas(S, "format") /\ ~SHas(S, "enum") /\ ~SHas(S, "const") /\ ~HasSubs(S) /\ ~HasNum(S)
               /\ ~HasStr(S) /\ ~HasArr(S) /\ HasObj(S) /\ ~HasRef(S)
ArrPlain(S) == /\ ~SHas(S, "format") /\ ~SHas(S, "enum") /\ ~SHas(S, "const") /\ ~HasSubs(S) /\ ~HasNum(S)
               /\ ~HasStr(S) /\ HasArr(S) /\ ~HasObj(S) /\ ~HasRef(S)

RECURSIVE PX(_, _), ArrX(_, _), SubX(_, _)

(* schemas_mutually_exclusive(a, b) *)
PX(a, b) ==
    IF IsBoolS(a) /\ ~a.bool THEN "yes"
    ELSE IF IsBoolS(b) /\ ~b.bool THEN "yes"
    ELSE IF IsBoolS(a) THEN "no"
    ELSE IF IsBoolS(b) THEN "no"
    ELSE IF PureSubs(b) THEN SubX(b, a)
    ELSE IF PureSubs(a) THEN SubX(a, b)
    ELSE IF SingleT(a) /\ ~HasType(b) /\ SHas(b, "enum")
         THEN Of(\A i \in DOMAIN b.enum : ValueInstanceType(b.enum[i]) # a.type)
    ELSE IF ~HasType(a) /\ SHas(a, "enum") /\ SingleT(b)
         THEN Of(\A i \in DOMAIN a.enum : ValueInstanceType(a.enum[i]) # b.type)
    ELSE IF ~HasType(a) \/ ~HasType(b) THEN "no"
    ELSE IF SingleT(a) /\ SingleT(b) THEN
           IF a.type # b.type THEN "yes"
           ELSE IF a.type = "object" THEN (IF ObjPlain(a) /\ ObjPlain(b) THEN ObjX(a, b) ELSE "no")
           ELSE IF a.type = "array" THEN (IF ArrPlain(a) /\ ArrPlain(b) THEN ArrX(a, b) ELSE "no")
           ELSE "no"
    ELSE IF VecT(a) /\ VecT(b) THEN Of(SeqSet(a.types) \cap SeqSet(b.types) = {})
    ELSE IF SingleT(a) THEN Of(a.type \notin SeqSet(b.types))
    ELSE Of(b.type \notin SeqSet(a.types))

(* the pure-subschema arm: s is the SchemaObject holding only subschemas *)
SubX(s, other) ==
    LET ks == DOMAIN s \cap SubKeys IN
    IF ks = {"allOf"} THEN AnySeq([i \in DOMAIN s.allOf |-> PX(s.allOf[i], other)])
    ELSE IF ks = {"anyOf"} THEN AllSeq([i \in DOMAIN s.anyOf |-> PX(s.anyOf[i], other)])
    ELSE IF ks = {"oneOf"} THEN AllSeq([i \in DOMAIN s.oneOf |-> PX(s.oneOf[i], other)])
    ELSE IF ks = {"not"} THEN Not3(PX(s["not"], other))
    ELSE "no"

(* array_schemas_mutually_exclusive *)
ArrX(a, b) ==
    LET single(S) == SHas(S, "items") /\ ~SHas(S, "additionalItems")
        fixedvec(S) == /\ SHas(S, "itemsList") /\ ~SHas(S, "additionalItems") /\ SHas(S, "maxItems") /\ SHas(S, "minItems")
                       /\ ~SHas(S, "uniqueItems") /\ ~SHas(S, "contains")
                       /\ S.maxItems = S.minItems /\ S.maxItems = Len(S.itemsList)
    IN IF single(a) /\ fixedvec(b) THEN AnySeq([i \in DOMAIN b.itemsList |-> PX(b.itemsList[i], a.items)])
       ELSE IF fixedvec(a) /\ single(b) THEN AnySeq([i \in DOMAIN a.itemsList |-> PX(a.itemsList[i], b.items)])
       ELSE IF SHas(a, "maxItems") /\ SHas(b, "minItems") /\ b.minItems > a.maxItems THEN "yes"
       ELSE IF SHas(b, "maxItems") /\ SHas(a, "minItems") /\ a.minItems > b.maxItems THEN "yes"
       ELSE IF SHas(a, "items") /\ SHas(b, "items") THEN PX(a.items, b.items)
       ELSE "no"

(* resolve: one step, only for a bare $ref *)
Res(S, defs) ==
    IF IsBoolS(S) THEN <<"ok", S>>
    ELSE IF HasRef(S) THEN
           IF ~HasType(S) /\ ~SHas(S, "format") /\ ~SHas(S, "enum") /\ ~SHas(S, "const") /\ ~HasSubs(S) /\ ~HasNum(S)
              /\ ~HasStr(S) /\ ~HasArr(S) /\ ~HasObj(S) /\ S.ref \in DOMAIN defs
           THEN <<"ok", defs[S.ref]>> ELSE <<"panic">>
    ELSE <<"ok", S>>

(* all_mutually_exclusive: pairs (ii, jj), ii < jj, in lexicographic order *)
AllX(subs, defs) ==
    LET n == Len(subs)
        pairs == [k \in 1 .. (n * (n - 1)) \div 2 |->
                    CHOOSE p \in (1 .. n) \X (1 .. n) :
                        /\ p[1] < p[2]
                        /\ Cardinality({ q \in (1 .. n) \X (1 .. n) : q[1] < q[2] /\
                                            (q[1] < p[1] \/ (q[1] = p[1] /\ q[2] < p[2])) }) = k - 1]
        one(p) == LET ra == Res(subs[p[1]], defs) rb == Res(subs[p[2]], defs) IN
                  IF ra[1] = "panic" \/ rb[1] = "panic" THEN "panic" ELSE PX(ra[2], rb[2])
    IN AllSeq([k \in DOMAIN pairs |-> one(pairs[k])])

(* maybe_option's filter: a subschema whose instance type is the single type null *)
IsNullS(S) == ~IsBoolS(S) /\ SingleT(S) /\ S.type = "null"

(* convert_any_of: "option" | "oneof" | "flattened" | "panic" *)
AnyOfRoute(subs, defs) ==
    LET nonnull == SelectSeq(subs, LAMBDA s : ~IsNullS(s)) IN
    IF Len(subs) # 1 /\ Len(nonnull) = 1 THEN "option"
    ELSE LET x == AllX(subs, defs) IN
         CASE x = "yes" -> "oneof" [] x = "no" -> "flattened" [] OTHER -> "panic"
=============================================================================
