----------------------------- MODULE SchemaLib -----------------------------
(***************************************************************************)
(* L0: constructors for abstract JSON Schema documents.  A schema is a     *)
(* record whose fields are the keywords present (ToJson renders it as the  *)
(* JSON object vdrive turns into the real document): type, properties      *)
(* (function name -> schema), required (set of names), items, itemsList,   *)
(* additionalProperties, oneOf/anyOf/allOf (sequences), ref (definition    *)
(* name), title, default/enum/const (tagged JSON values, see JsonVal),     *)
(* bool (the boolean schemas).                                             *)
(***************************************************************************)
EXTENDS TLC, Sequences, FiniteSets, Integers, SequencesExt

SHas(S, k) == k \in DOMAIN S

STrue  == [bool |-> TRUE]
SFalse == [bool |-> FALSE]
SStr   == [type |-> "string"]
SInt   == [type |-> "integer"]
SNum   == [type |-> "number"]
SBool  == [type |-> "boolean"]
SNull  == [type |-> "null"]
SRef(n) == [ref |-> n]
(* "required" is kept as a sequence (that is how it comes back from a JSON
   trace); the constructors take a set for convenience *)
SObj(props, req) == [type |-> "object", properties |-> props, required |-> SetToSeq(req)]
SObjClosed(props, req) == [type |-> "object", properties |-> props, required |-> SetToSeq(req),
                           additionalProperties |-> SFalse]
ReqSet(S) == IF SHas(S, "required") THEN { S.required[i] : i \in DOMAIN S.required } ELSE {}
SMap(vs) == [type |-> "object", additionalProperties |-> vs]
SArr(s) == [type |-> "array", items |-> s]
SSet(s) == [type |-> "array", items |-> s, uniqueItems |-> TRUE]
STuple(ss) == [type |-> "array", itemsList |-> ss, minItems |-> Len(ss), maxItems |-> Len(ss)]
SFixed(s, n) == [type |-> "array", items |-> s, minItems |-> n, maxItems |-> n]
SNullable(s) == [oneOf |-> <<s, SNull>>]
SOneOf(ss) == [oneOf |-> ss]
SAnyOf(ss) == [anyOf |-> ss]
SAllOf(ss) == [allOf |-> ss]
With(s, k, v) == (k :> v) @@ s
Titled(s, t) == With(s, "title", t)

Props1(a, sa) == (a :> sa)
Props2(a, sa, b, sb) == (a :> sa) @@ (b :> sb)
Props3(a, sa, b, sb, c, sc) == (a :> sa) @@ (b :> sb) @@ (c :> sc)
=============================================================================
