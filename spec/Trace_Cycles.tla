---------------------------- MODULE Trace_Cycles ----------------------------
(***************************************************************************)
(* L4: trace validation of break_cycles against the machine of module      *)
(* Cycles.  One recorded run:                                              *)
(*    bc_run{roots, nodes} ; (bc_root | bc_seen | bc_visit | bc_push |     *)
(*    bc_pop)* ; bc_end                                                    *)
(* Every step event must be the action of that name, with the recorded     *)
(* arguments, enabled in the current state of the machine: bc_visit also   *)
(* binds the recorded partition (snip, descend) to SnipOf / DescendOf of   *)
(* the machine's own active set.  bc_end requires Done.  The design        *)
(* invariants of Cycles (Acyclic, OnlyCycles, ActiveIsStack) are           *)
(* evaluated in every state of the validated run (INVARIANTs of the cfg,   *)
(* guarded by `ok`).  A step the machine cannot take is printed as         *)
(* DIVERGE and the rest of that run is skipped.                            *)
(***************************************************************************)
EXTENDS Cycles, Json, IOUtils, TLC

Rec == ndJsonDeserialize(IOEnv.TRACE)
VARIABLES l, nbad, nself, ok
vars == <<l, nbad, nself, ok, cvars>>

Init == /\ l = 1 /\ nbad = 0 /\ nself = 0 /\ ok = FALSE
        /\ StartState(<< >>, << >>)
IsEvent(k) == l <= Len(Rec) /\ Rec[l].ev = k /\ l' = l + 1

GraphOf(e) == [n \in { e.nodes[i].id : i \in DOMAIN e.nodes } |->
                  e.nodes[CHOOSE i \in DOMAIN e.nodes : e.nodes[i].id = n].children]

Diverge(e, why) ==
    /\ PrintT(<<"DIVERGE", ToJson([l |-> l, case |-> e.case, why |-> why, ev |-> e,
                                   top |-> IF stack = << >> THEN [st |-> "none"] ELSE Top,
                                   active |-> active, visited |-> visited])>>)
    /\ ok' = FALSE /\ nself' = nself + 1 /\ UNCHANGED <<nbad, cvars>>

Run == /\ IsEvent("bc_run")
       /\ LET e == Rec[l] IN
            /\ children' = GraphOf(e) /\ roots' = e.roots /\ ri' = 1
            /\ visited' = {} /\ active' = {} /\ stack' = << >> /\ boxed' = {}
       /\ ok' = TRUE /\ UNCHANGED <<nbad, nself>>

(* one recorded step = one action of Cycles with the recorded arguments *)
StepAction(e) ==
    CASE e.ev = "bc_root"  -> Root(e.id, e.skipped)
      [] e.ev = "bc_seen"  -> Seen(e.id)
      [] e.ev = "bc_visit" -> e.id \in Nodes /\ SnipOf(e.id) = e.snip /\ DescendOf(e.id) = e.descend /\ Visit(e.id)
      [] e.ev = "bc_push"  -> Push(e.id)
      [] e.ev = "bc_pop"   -> Pop(e.id)
IsStep(e) == e.ev \in {"bc_root", "bc_seen", "bc_visit", "bc_push", "bc_pop"}

Step == /\ l <= Len(Rec) /\ IsStep(Rec[l]) /\ l' = l + 1
        /\ LET e == Rec[l] IN
             IF ~ok THEN UNCHANGED <<nbad, nself, ok, cvars>>
             ELSE IF ENABLED StepAction(e) THEN StepAction(e) /\ UNCHANGED <<nbad, nself, ok>>
             ELSE Diverge(e, "step not enabled")

End == /\ IsEvent("bc_end")
       /\ IF ok /\ ~Done THEN Diverge(Rec[l], "run ended before the machine is done")
          ELSE UNCHANGED <<nbad, nself, ok, cvars>>

Next == Run \/ Step \/ End
Spec == Init /\ [][Next]_vars

(* the design invariants, on the states of validated runs *)
TAcyclic == ok => Acyclic
TOnlyCycles == ok => OnlyCycles
TActiveIsStack == ok => ActiveIsStack

Finished ==
    /\ PrintT(<<"TRACE-STATS", ToJson([lines |-> Len(Rec), diameter |-> TLCGet("stats").diameter,
                                      distinct |-> TLCGet("stats").distinct,
                                      generated |-> TLCGet("stats").generated])>>)
    /\ TLCGet("stats").diameter = Len(Rec) + 1
AtEnd == l = Len(Rec) + 1 => PrintT(<<"TRACE-END", ToJson([nbad |-> nbad, nself |-> nself, l |-> l])>>)
=============================================================================
