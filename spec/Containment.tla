---------------------------- MODULE Containment ----------------------------
(***************************************************************************)
(* L1 contract for C07: finite size of generated types.                    *)
(*                                                                         *)
(* A type-space observation is a sequence of entries                       *)
(*    [id : Nat, kind : STRING, edges : Seq([to : Nat, ...])]              *)
(* (either the internal snapshot or the walk of Type::details() through    *)
(* the public API).  Containment is by value unless it passes through a    *)
(* heap indirection: the children of a Box, Vec, map or set entry live on  *)
(* the heap.                                                               *)
(***************************************************************************)
EXTENDS Integers, Sequences, FiniteSets, TLC

HeapKinds == {"box", "vec", "map", "set"}

Ids(entries) == { entries[i].id : i \in DOMAIN entries }
ByValue(entries) ==
    UNION { { <<entries[i].id, entries[i].edges[j].to>> : j \in DOMAIN entries[i].edges } :
            i \in { k \in DOMAIN entries : entries[k].kind \notin HeapKinds } }

(* nodes reachable from n in one or more steps of relation R *)
RECURSIVE ReachFrom(_, _, _)
ReachFrom(R, frontier, seen) ==
    LET next == { p[2] : p \in { q \in R : q[1] \in frontier } } \ seen
    IN IF next = {} THEN seen ELSE ReachFrom(R, next, seen \cup next)
Reach(R, n) == ReachFrom(R, {n}, {})

Acyclic(R, nodes) == \A n \in nodes : n \notin Reach(R, n)
OnCycle(R, nodes) == { n \in nodes : n \in Reach(R, n) }

FiniteSize(entries) == Acyclic(ByValue(entries), Ids(entries))
BoxCount(entries) == Cardinality({ i \in DOMAIN entries : entries[i].kind = "box" })

(* the schema-level graph of a case: edges [from, to, kind] between
   definitions; Vec and map-value edges are heap edges *)
SchemaHeapEdge == {"vec", "map"}
SchemaByValue(edges) == { <<edges[i].from, edges[i].to>> :
                          i \in { k \in DOMAIN edges : edges[k].kind \notin SchemaHeapEdge } }
SchemaAcyclic(n, edges) == Acyclic(SchemaByValue(edges), 1 .. n)

(* third observation: the by-value graph of the rendered items, rendered : Seq([name, holds]) where
   holds lists the generated types a struct / enum mentions outside Box, Vec, maps and sets *)
RenderedByValue(rendered) ==
    UNION { { <<rendered[i].name, rendered[i].holds[j]>> : j \in DOMAIN rendered[i].holds } : i \in DOMAIN rendered }
RenderedNames(rendered) == { rendered[i].name : i \in DOMAIN rendered }
RenderedFinite(rendered) == Acyclic(RenderedByValue(rendered), RenderedNames(rendered))

(* verdict for one observation of a case (graph with n definitions) *)
C07_Diag(n, edges, res, entries) ==
    IF res # "ok" THEN "C07/Rejected"
    ELSE IF ~FiniteSize(entries) THEN "C07/InfiniteSize"
    ELSE IF SchemaAcyclic(n, edges) /\ BoxCount(entries) > 0 THEN "C07/NeedlessBox"
    ELSE "ok"
=============================================================================
