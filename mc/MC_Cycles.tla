----------------------------- MODULE MC_Cycles -----------------------------
(***************************************************************************)
(* L3: the break_cycles machine (module Cycles) over every containment     *)
(* multigraph with N nodes and at most K children per node, and every      *)
(* range 1..R of root ids.  TLC checks Acyclic, OnlyCycles and             *)
(* ActiveIsStack in every reachable state, and that every run ends         *)
(* (deadlock = Done only).                                                 *)
(***************************************************************************)
EXTENDS Cycles, TLC

CONSTANTS N, K

SeqsUpTo(S, k) == UNION { [1 .. m -> S] : m \in 0 .. k }

Init == \E ch \in [1 .. N -> SeqsUpTo(1 .. N, K)], r \in 1 .. N :
           StartState(ch, [i \in 1 .. r |-> i])
Next == CNext
Spec == Init /\ [][Next]_cvars

(* a state without successor is a finished run *)
EndsOnlyWhenDone == (~ENABLED Next) => Done
(* the run is bounded: every node is visited once, pushed at most once per incoming edge *)
Bounded == Len(stack) <= N + 1
=============================================================================
