SPECIFICATION GenSpec
CONSTANTS
  MaxPool = 2
  MaxSteps = 3
INVARIANT Emit
CHECK_DEADLOCK FALSE
