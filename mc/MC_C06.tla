------------------------------- MODULE MC_C06 -------------------------------
(***************************************************************************)
(* L3: cases for C06: (type kind, default value, position).  The default   *)
(* sits either on a property of struct T ("prop") or on a named definition *)
(* N referenced from T ("type").  Both valid and invalid defaults are      *)
(* enumerated; validity is decided by Schema!Valid, never by the list.     *)
(***************************************************************************)
EXTENDS FamiliesE, Json

VARIABLE c
K(id, sp, d, defs) == [id |-> id, sp |-> sp, d |-> d, defs |-> defs]
NoDefs == << >>
NQ == ("N" :> SObj(Props2("q", SInt, "r", SStr), {"q"}))
NFlat == ("N" :> With(SObj(Props1("q", SInt), {"q"}), "additionalProperties", SInt))
NNest == ("N" :> SObj(Props2("q", SInt, "r", With(SInt, "default", JInt(9))), {"q"}))
NClosed == ("N" :> SObjClosed(Props2("q", SInt, "r", SStr), {"q"}))
NAddl == ("N" :> With(SObj(Props2("q", SInt, "r", SStr), {"q"}), "additionalProperties", SInt))
Col == ("C" :> EnumS(<<JS(<<"r">>), JS(<<"g">>)>>))
ExtE == ("E" :> SOneOf(<< EnumS(<<JS(<<"U">>)>>), ExtVar("V", SInt) >>))
IntE == ("E" :> SOneOf(<< IntVar(<<"a">>, Props1("x", SInt), {"x"}, FALSE), IntVar(<<"b">>, << >>, {}, FALSE) >>))
AdjE == ("E" :> SOneOf(<< AdjVar(<<"a">>, SInt), AdjVar(<<"b">>, SStr) >>))
UntE == ("E" :> SOneOf(<< SInt, SStr >>))
Name1 == ("S" :> [type |-> "string", minLength |-> 1])

Kinds == <<
  K("bool-true", SBool, JBool(TRUE), NoDefs), K("bool-false", SBool, JBool(FALSE), NoDefs),
  K("bool-bad", SBool, JS(<<"x">>), NoDefs),
  K("int-5", SInt, JInt(5), NoDefs), K("int-neg", SInt, JInt(-3), NoDefs), K("int-0", SInt, JInt(0), NoDefs),
  K("int-bad", SInt, JS(<<"x">>), NoDefs), K("int-float", SInt, JHalf(3), NoDefs),
  K("u8-7", [type |-> "integer", format |-> "uint8"], JInt(7), NoDefs),
  K("u8-300", [type |-> "integer", format |-> "uint8"], JInt(300), NoDefs),
  K("u8-neg", [type |-> "integer", format |-> "uint8"], JInt(-1), NoDefs),
  K("i8-min", [type |-> "integer", format |-> "int8"], JInt(-128), NoDefs),
  K("nz-7", [type |-> "integer", format |-> "uint32", minimum |-> JInt(1)], JInt(7), NoDefs),
  K("nz-0", [type |-> "integer", format |-> "uint32", minimum |-> JInt(1)], JInt(0), NoDefs),
  K("bounded-ok", [type |-> "integer", minimum |-> JInt(0), maximum |-> JInt(255)], JInt(255), NoDefs),
  K("bounded-bad", [type |-> "integer", minimum |-> JInt(0), maximum |-> JInt(255)], JInt(256), NoDefs),
  K("u64-big", [type |-> "integer", format |-> "uint64"], JBig(Pt("u64max", 0)), NoDefs),
  K("float-1.5", SNum, JHalf(3), NoDefs), K("float-int", SNum, JInt(2), NoDefs), K("float-bad", SNum, JS(<<"x">>), NoDefs),
  K("f32", [type |-> "number", format |-> "float"], JHalf(5), NoDefs),
  K("str-x", SStr, JS(<<"x">>), NoDefs), K("str-empty", SStr, JS(<< >>), NoDefs), K("str-bad", SStr, JInt(5), NoDefs),
  K("str-quote", SStr, JS(<<"a", "\"", "b", "\\", "<e9>">>), NoDefs),
  K("opt-4", SNullable(SInt), JInt(4), NoDefs), K("opt-null", SNullable(SInt), JNull, NoDefs),
  K("opt-bad", SNullable(SInt), JS(<<"x">>), NoDefs),
  K("vec-12", SArr(SInt), JArr(<<JInt(1), JInt(2)>>), NoDefs), K("vec-empty", SArr(SInt), JArr(<< >>), NoDefs),
  K("vec-bad", SArr(SInt), JArr(<<JS(<<"a">>)>>), NoDefs), K("vec-notarr", SArr(SInt), JInt(1), NoDefs),
  K("vec-str", SArr(SStr), JArr(<<JS(<<"a">>), JS(<<"b">>)>>), NoDefs),
  K("set-ab", SSet(SStr), JArr(<<JS(<<"a">>), JS(<<"b">>)>>), NoDefs),
  K("set-dup", SSet(SStr), JArr(<<JS(<<"a">>), JS(<<"a">>)>>), NoDefs),
  K("map-k1", SMap(SInt), JObj1("k", JInt(1)), NoDefs), K("map-empty", SMap(SInt), JEmptyObj, NoDefs),
  K("map-bad", SMap(SInt), JObj1("k", JS(<<"x">>)), NoDefs),
  K("tuple2", STuple(<<SInt, SStr>>), JArr(<<JInt(1), JS(<<"a">>)>>), NoDefs),
  K("tuple1", STuple(<<SStr>>), JArr(<<JS(<<"a">>)>>), NoDefs),
  K("tuple-arity", STuple(<<SInt, SStr>>), JArr(<<JInt(1)>>), NoDefs),
  K("tuple-bad", STuple(<<SInt, SStr>>), JArr(<<JS(<<"a">>), JInt(1)>>), NoDefs),
  K("fixed2", SFixed(SInt, 2), JArr(<<JInt(1), JInt(2)>>), NoDefs),
  K("fixed-short", SFixed(SInt, 2), JArr(<<JInt(1)>>), NoDefs),
  K("struct-q7", SRef("N"), JObj1("q", JInt(7)), NQ),
  K("struct-full", SRef("N"), JObj2("q", JInt(7), "r", JS(<<"z">>)), NQ),
  K("struct-missing-req", SRef("N"), JObj1("r", JS(<<"z">>)), NQ),
  K("struct-bad-member", SRef("N"), JObj1("q", JS(<<"x">>)), NQ),
  K("struct-nested-default", SRef("N"), JObj1("q", JInt(7)), NNest),
  K("struct-flatten", SRef("N"), JObj2("q", JInt(1), "zz", JInt(2)), NFlat),
  (* struct defaults: {valid, unknown key, unknown key of the wrong type} x {open, closed, typed additionalProperties} *)
  K("struct-open-unknown-key", SRef("N"), JObj2("q", JInt(7), "zz", JInt(1)), NQ),
  K("struct-closed-ok", SRef("N"), JObj1("q", JInt(7)), NClosed),
  K("struct-closed-unknown-key", SRef("N"), JObj2("q", JInt(7), "zz", JInt(1)), NClosed),
  K("struct-closed-missing-req", SRef("N"), JObj1("r", JS(<<"z">>)), NClosed),
  K("struct-addl-ok", SRef("N"), JObj2("q", JInt(7), "zz", JInt(1)), NAddl),
  K("struct-addl-bad-extra", SRef("N"), JObj2("q", JInt(7), "zz", JS(<<"x">>)), NAddl),
  K("vec-of-struct-unknown-key", SArr(SRef("N")), JArr(<<JObj2("q", JInt(7), "zz", JInt(1))>>), NClosed),
  K("opt-struct-unknown-key", SNullable(SRef("N")), JObj2("q", JInt(7), "zz", JInt(1)), NClosed),
  K("enum-g", SRef("C"), JS(<<"g">>), Col), K("enum-bad", SRef("C"), JS(<<"b","l","u","e">>), Col),
  K("ext-unit", SRef("E"), JS(<<"U">>), ExtE), K("ext-data", SRef("E"), JObj1("V", JInt(1)), ExtE),
  K("ext-bad", SRef("E"), JObj1("W", JInt(1)), ExtE),
  K("int-tag-a", SRef("E"), JObj2("kind", JS(<<"a">>), "x", JInt(1)), IntE),
  K("int-tag-unit", SRef("E"), JObj1("kind", JS(<<"b">>)), IntE),
  K("int-tag-bad", SRef("E"), JObj1("kind", JS(<<"z">>)), IntE),
  K("adj-a", SRef("E"), JObj2("c", JInt(3), "t", JS(<<"a">>)), AdjE),
  K("adj-bad", SRef("E"), JObj2("c", JS(<<"x">>), "t", JS(<<"a">>)), AdjE),
  K("untagged-int", SRef("E"), JInt(5), UntE), K("untagged-str", SRef("E"), JS(<<"s">>), UntE),
  K("untagged-bad", SRef("E"), JBool(TRUE), UntE),
  K("newtype-ok", SRef("S"), JS(<<"a","b">>), Name1), K("newtype-bad", SRef("S"), JS(<< >>), Name1),
  K("inline-constrained", [type |-> "string", maxLength |-> 2], JS(<<"a","b","c">>), NoDefs),
  K("unit-null", SNull, JNull, NoDefs),
  K("uuid-ok", [type |-> "string", format |-> "uuid"], Sample("uuid")[1], NoDefs),
  K("uuid-bad", [type |-> "string", format |-> "uuid"], JS(<<"z","z">>), NoDefs),
  K("date-ok", [type |-> "string", format |-> "date"], Sample("date")[1], NoDefs),
  K("ip-ok", [type |-> "string", format |-> "ipv4"], Sample("ipv4")[1], NoDefs),
  K("any-obj", STrue, JObj1("k", JArr(<<JInt(1), JNull>>)), NoDefs),
  K("boxed-self", SNullable(SRef("T")), JNull, NoDefs) >>

Positions == {"prop", "type"}

(* every recognised integer format with a default at, just above and just below its range *)
FmtNames == <<"int8", "uint8", "int16", "uint16", "int", "int32", "uint", "uint32", "int64", "uint64">>
FmtS(f) == [type |-> "integer", format |-> f]
FmtKindsOf(f) ==
    LET ty == IntFormatType(f) mx == TMax(ty) mn == TMin(ty) IN
    << K("fmt-" \o f \o "-max", FmtS(f), JBig(mx), NoDefs), K("fmt-" \o f \o "-min", FmtS(f), JBig(mn), NoDefs) >>
    \o (IF ty = "u64" THEN << >> ELSE << K("fmt-" \o f \o "-over", FmtS(f), JBig([a |-> mx.a, o |-> mx.o + 1]), NoDefs) >>)
    \o (IF ty = "i64" THEN << >> ELSE << K("fmt-" \o f \o "-under", FmtS(f), JBig([a |-> mn.a, o |-> mn.o - 1]), NoDefs) >>)
(* maps whose keys are constrained (a dedicated key type is generated) with a non-empty default *)
KeyPat6 == [type |-> "string", pattern |-> "^a+$"]
MapKinds == <<
  K("keymap-pattern-dflt", [type |-> "object", propertyNames |-> KeyPat6, additionalProperties |-> SInt], JObj2("a", JInt(1), "aa", JInt(2)), NoDefs),
  K("keymap-enum-dflt", [type |-> "object", propertyNames |-> EnumS(<<JS(<<"r","e","d">>), JS(<<"g">>)>>), additionalProperties |-> SInt],
    JObj1("red", JInt(1)), NoDefs),
  K("keymap-len-dflt", [type |-> "object", propertyNames |-> [type |-> "string", maxLength |-> 3], additionalProperties |-> SStr],
    JObj1("k", JS(<<"v">>)), NoDefs),
  K("keymap-pattern-empty", [type |-> "object", propertyNames |-> KeyPat6, additionalProperties |-> SInt], JObj(<< >>, << >>), NoDefs) >>
(* sets: duplicates anywhere in the default make it invalid *)
SetKinds == <<
  K("set-ok", SSet(SStr), JArr(<<JS(<<"a">>), JS(<<"b">>)>>), NoDefs),
  K("set-dup-adjacent", SSet(SStr), JArr(<<JS(<<"a">>), JS(<<"a">>), JS(<<"b">>)>>), NoDefs),
  K("set-dup-apart", SSet(SStr), JArr(<<JS(<<"a">>), JS(<<"b">>), JS(<<"a">>)>>), NoDefs),
  K("set-int-dup-apart", SSet(SInt), JArr(<<JInt(1), JInt(2), JInt(3), JInt(1)>>), NoDefs) >>
AllKinds == Kinds \o MapKinds \o SetKinds \o Flat([i \in DOMAIN FmtNames |-> FmtKindsOf(FmtNames[i])])

Init == \E k \in DOMAIN AllKinds, p \in Positions : c = [k |-> AllKinds[k], pos |-> p]
Next == UNCHANGED c
Spec == Init /\ [][Next]_c

KK == c.k
(* in position "type" the default sits on the definition itself: a kind given
   as a reference to a helper definition is inlined *)
TypeSite == IF SHas(KK.sp, "ref") THEN KK.defs[KK.sp.ref] ELSE KK.sp
(* position "prop": T = { p: Sp + default };  position "type": N0 = Sp + default, T = { p: $ref N0 } *)
Defs == IF c.pos = "prop"
        THEN ("T" :> SObj(Props1("p", With(KK.sp, "default", KK.d)), {})) @@ KK.defs
        ELSE ("T" :> SObj(Props1("p", SRef("N0")), {})) @@ ("N0" :> With(TypeSite, "default", KK.d)) @@ KK.defs
SiteSchema == KK.sp
DefaultValid == Valid(SiteSchema, KK.d, Defs)

Probes == IF c.pos = "prop"
          THEN << [kind |-> "deser", ty |-> [def |-> "T"], val |-> JEmptyObj],
                  [kind |-> "default", ty |-> [def |-> "T"]],
                  [kind |-> "builder", ty |-> [def |-> "T"], steps |-> << >>, mode |-> "set"] >>
          ELSE << [kind |-> "default", ty |-> [def |-> "N0"]] >>

Emit == PrintT(<<"CASE", ToJson([fam |-> "C06", id |-> KK.id, pos |-> c.pos, sp |-> KK.sp, d |-> KK.d,
                                 default_valid |-> DefaultValid,
                                 settings |-> [builder |-> TRUE],
                                 calls |-> << [call |-> "add_root_schema", doc |-> [defs |-> Defs]] >>,
                                 probes |-> Probes])>>)
=============================================================================
