------------------------------- MODULE MC_C13 -------------------------------
(***************************************************************************)
(* L3: the C13 decision table, enumerated exhaustively.  Three blocks:     *)
(*  A  semver: every (requirement, configured version) pair of the bound   *)
(*  B  policy: crate configuration x unknown policy x rename x crate name  *)
(*     spelling x parameters x definition-name coincidence                 *)
(*  C  malformed extensions under every configuration that would otherwise *)
(*     substitute                                                          *)
(* One TLC state per case (the case is the state); the implementation      *)
(* model RustExt!Convert is judged by the contract in every state.         *)
(***************************************************************************)
EXTENDS RustExt, Json

CONSTANT MaxComp   \* version components range over 0..MaxComp

VARIABLE c

Comp == 0 .. MaxComp
Pres == {"", "alpha"}
Versions == { V(M, m, p, pre) : M \in Comp, m \in Comp, p \in Comp, pre \in Pres }

Ops == {"caret", "tilde", "eq", "gt", "ge", "lt", "le"}
Cmp(op, M, m, p, pre, written) == [op |-> op, M |-> M, m |-> m, p |-> p, pre |-> pre, w |-> written]
(* w: whether the caret is written explicitly ("^1.2") or left implicit ("1.2") *)
Comparators ==
       { Cmp(op, M, -1, -1, "", "x") : op \in Ops, M \in Comp }
  \cup { Cmp(op, M, m, -1, "", "x") : op \in Ops, M \in Comp, m \in Comp }
  \cup { Cmp(op, M, m, p, pre, "x") : op \in Ops, M \in Comp, m \in Comp, p \in Comp, pre \in Pres }
  \cup { Cmp("caret", M, m, p, "", "implicit") : M \in Comp, m \in Comp, p \in Comp }
  \cup { Cmp("caret", M, m, -1, "", "implicit") : M \in Comp, m \in Comp }
  \cup { Cmp("wild", M, -1, -1, "", "x") : M \in Comp }
  \cup { Cmp("wild", M, m, -1, "", "x") : M \in Comp, m \in Comp }

RangeLo == { Cmp("ge", 0, 1, 0, "", "x"), Cmp("ge", 1, 0, 0, "", "x"), Cmp("gt", 0, 2, 1, "", "x"),
             Cmp("ge", 1, 0, 0, "alpha", "x") }
RangeHi == { Cmp("lt", 1, 0, 0, "", "x"), Cmp("lt", 2, 0, 0, "", "x"), Cmp("le", 1, 1, 1, "", "x"),
             Cmp("lt", 1, 1, -1, "", "x") }
Reqs == { <<x>> : x \in Comparators } \cup { <<a, b>> : a \in RangeLo, b \in RangeHi } \cup { << >> }

Crates == { [crate |-> "mycrate", ident |-> "mycrate"],
            [crate |-> "my-crate", ident |-> "my_crate"],
            [crate |-> "my_crate", ident |-> "my_crate"],
            [crate |-> "crate2x", ident |-> "crate2x"] }
Renames == { [rename |-> "", renameIdent |-> ""],
             [rename |-> "other", renameIdent |-> "other"],
             [rename |-> "other-name", renameIdent |-> "other_name"] }
(* parameter lists: expected identifier text; vdrive turns "String" into an
   inline string schema, "i64" into an inline integer schema, "P" into a
   $ref to a plain definition P *)
ParamLists == { << >>, <<"::std::string::String">>, <<"P">>, <<"i64", "P">>, <<"P", "::std::string::String">>,
                <<"User">>, <<"i64", "User">> }   \* "User": the definition that contains the annotated schema

Ext(cr, head, rest, last, req, reqOk, hasVersion, params) ==
    [crate |-> cr.crate, ident |-> cr.ident, head |-> head, rest |-> rest, last |-> last,
     req |-> req, reqOk |-> reqOk, hasVersion |-> hasVersion, params |-> params]
Cfg(kind, ver, rn) == [kind |-> kind, ver |-> ver, rename |-> rn.rename, renameIdent |-> rn.renameIdent]
NoRename == [rename |-> "", renameIdent |-> ""]
V100 == V(1, 0, 0, "")
Case(block, ext, cfg, policy, def) == [block |-> block, ext |-> ext, cfg |-> cfg, policy |-> policy, def |-> def]
Plain == CHOOSE cr \in Crates : cr.crate = "mycrate"

BlockA == { Case("A", Ext(Plain, "mycrate", "::m::Thing", "Thing", r, TRUE, TRUE, << >>),
                 Cfg("version", v, NoRename), "generate", "Ext") : r \in Reqs, v \in Versions }

CfgKinds == {"absent", "any", "never", "version-match", "version-mismatch"}
CfgOf(k, rn) == CASE k = "absent" -> Cfg("absent", V100, NoRename)
                  [] k = "any" -> Cfg("any", V100, rn)
                  [] k = "never" -> Cfg("never", V100, rn)
                  [] k = "version-match" -> Cfg("version", V(1, 2, 0, ""), rn)
                  [] k = "version-mismatch" -> Cfg("version", V(2, 0, 0, ""), rn)
Req1 == << Cmp("caret", 1, 0, 0, "", "implicit") >>
BlockB == { Case("B", Ext(cr, cr.ident, "::m::Thing", "Thing", Req1, TRUE, TRUE, ps),
                 CfgOf(k, rn), pol, def) :
            cr \in Crates, k \in CfgKinds, rn \in Renames, pol \in {"generate", "allow", "deny"},
            ps \in ParamLists, def \in {"Ext", "Thing"} }

(* definition names that are a proper suffix / prefix / superstring of the external type's name
   (the wrapper decision compares names; only equality means "use directly") *)
BlockB2 == { Case("B", Ext(Plain, "mycrate", "::m::MyThing", "MyThing", Req1, TRUE, TRUE, << >>),
                  CfgOf(k, NoRename), pol, def) :
             k \in CfgKinds, pol \in {"generate", "allow", "deny"},
             def \in {"Thing", "MyThing", "My", "MyThingy"} }

(* the annotated definition also carries a `default` keyword: substitution and the wrapper decision
   do not depend on it *)
BlockB3 == { Case("B", Ext(Plain, "mycrate", "::m::Thing", "Thing", Req1, TRUE, TRUE, ps),
                  CfgOf(k, NoRename), pol, def) @@ [dflt |-> TRUE] :
             k \in CfgKinds, pol \in {"generate", "allow", "deny"}, def \in {"Thing", "Ext"},
             ps \in { << >>, <<"P">> } }

Malformed == {"missing-version", "bad-requirement", "no-separator", "wrong-head", "hyphen-head"}
ExtBad(kind, cr) ==
    CASE kind = "missing-version" -> Ext(cr, cr.ident, "::m::Thing", "Thing", Req1, TRUE, FALSE, << >>)
      [] kind = "bad-requirement" -> Ext(cr, cr.ident, "::m::Thing", "Thing", Req1, FALSE, TRUE, << >>)
      [] kind = "no-separator"    -> Ext(cr, cr.ident, "", cr.ident, Req1, TRUE, TRUE, << >>)
      [] kind = "wrong-head"      -> Ext(cr, "elsewhere", "::m::Thing", "Thing", Req1, TRUE, TRUE, << >>)
      [] kind = "hyphen-head"     -> Ext(cr, cr.crate, "::m::Thing", "Thing", Req1, TRUE, TRUE, << >>)
BlockC == { Case("C", ExtBad(kind, cr), CfgOf(k, NoRename), pol, "Ext") :
            kind \in Malformed, cr \in Crates, k \in {"absent", "any", "version-match"},
            pol \in {"generate", "allow", "deny"} }
(* hyphen-head on a crate without a hyphen is well formed: keep only real defects *)
BlockC2 == { x \in BlockC : ~WellFormedExt(x.ext) }

Cases == BlockA \cup BlockB \cup BlockB2 \cup BlockB3 \cup BlockC2

Init == c \in Cases
Next == UNCHANGED c
Spec == Init /\ [][Next]_c

Emit == PrintT(<<"CASE", ToJson([c |-> c, sub |-> Substituted(c), exp |-> ExpPath(c),
                                 predict |-> Convert(c), model_ok |-> ModelOK(c)])>>)
=============================================================================
