------------------------------- MODULE MC_C02 -------------------------------
(***************************************************************************)
(* L3: C02/C03 cases.  One TLC state per schema document of the universe;  *)
(* for each, the candidate instances of definition "T" are generated in    *)
(* TLA+ (Instances!Candidates) and classified by Schema!Valid; the CASE    *)
(* line carries the document, the probes and the classification (which the *)
(* orchestrator cross-checks against Python jsonschema).                   *)
(***************************************************************************)
EXTENDS Families, Json

VARIABLE c   \* the document (carried in the state: nothing is recomputed)
Init == \E k \in DOMAIN QuickUniverse : c = QuickUniverse[k]
Next == UNCHANGED c
Spec == Init /\ [][Next]_c

D == c
T == D.defs["T"]
Cands == Candidates(T, D.defs, 2)

Probe(v) == [kind |-> "deser", ty |-> [def |-> "T"], val |-> v,
             valid |-> Valid(T, v, D.defs), declared |-> OnlyDeclared(T, v, D.defs)]

Emit == PrintT(<<"CASE", ToJson([fam |-> D.fam, id |-> D.id,
                                 settings |-> [builder |-> FALSE],
                                 calls |-> << [call |-> "add_root_schema", doc |-> [defs |-> D.defs]] >>,
                                 probes |-> [j \in DOMAIN Cands |-> Probe(Cands[j])]])>>)
=============================================================================
