------------------------------- MODULE MC_C05 -------------------------------
(***************************************************************************)
(* L3: cases for C05 (enforced constructs x invalid candidates) and C11    *)
(* (string-like types x probe strings).  One TLC state per document.       *)
(***************************************************************************)
EXTENDS FamiliesE, Json

VARIABLE c   \* the case: [doc, enforced]
(* the universes are evaluated once, while the initial states are enumerated;
   the state carries the document so that nothing is recomputed afterwards *)
Init == \/ \E k \in DOMAIN EnforcedUniverse : c = [doc |-> EnforcedUniverse[k], enforced |-> TRUE]
        \/ \E k \in DOMAIN StringUniverse :
              /\ (StringUniverse[k].fam \in {"S1", "S2"} \/ ~Enforced(StringUniverse[k].defs["T"], StringUniverse[k].defs, 3))
              /\ c = [doc |-> StringUniverse[k], enforced |-> FALSE]
Next == UNCHANGED c
Spec == Init /\ [][Next]_c

D == c.doc
T == D.defs["T"]
InEnforced == c.enforced
Cands == Candidates(T, D.defs, 2)
StrCandsOf == SelectSeq(Cands, LAMBDA v : v.t = "str")
(* the first candidates once more with surrounding white space: parsing must not be more lenient
   than deserialising *)
Padded == LET n == IF Len(StrCandsOf) > 4 THEN 4 ELSE Len(StrCandsOf) IN
          [j \in 1 .. n |-> <<" ">> \o StrCandsOf[j].c \o <<" ">>]
Strings == [j \in DOMAIN StrCandsOf |-> StrCandsOf[j].c] \o Padded \o
           (IF IsStringDoc(D) \/ ~InEnforced THEN ExtraStrings
               \o Flat([k \in DOMAIN <<"uuid", "ip", "ipv4", "ipv6", "date", "date-time">> |->
                         StrFormatSamples(<<"uuid", "ip", "ipv4", "ipv6", "date", "date-time">>[k])])
            ELSE << >>)

DeserProbe(v) == [kind |-> "deser", ty |-> [def |-> "T"], val |-> v, valid |-> Valid(T, v, D.defs)]
StrProbe(s) == [kind |-> "str", ty |-> [def |-> "T"], s |-> s, val |-> JStr(s), valid |-> Valid(T, JStr(s), D.defs)]

Emit == PrintT(<<"CASE", ToJson([fam |-> D.fam, id |-> D.id, enforced |-> InEnforced,
                                 stringlike |-> IsStringDoc(D) \/ ~InEnforced,
                                 settings |-> (IF D.fam = "S2" THEN S2Settings ELSE [builder |-> FALSE]),
                                 calls |-> << [call |-> "add_root_schema", doc |-> [defs |-> D.defs]] >>,
                                 probes |-> (IF InEnforced THEN [j \in DOMAIN Cands |-> DeserProbe(Cands[j])] ELSE << >>)
                                            \o (IF IsStringDoc(D) \/ ~InEnforced
                                                THEN [j \in DOMAIN Strings |-> StrProbe(Strings[j])] ELSE << >>)])>>)
=============================================================================
