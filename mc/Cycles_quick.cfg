SPECIFICATION Spec
CONSTANTS
  N = 3
  K = 2
INVARIANT Acyclic
INVARIANT OnlyCycles
INVARIANT ActiveIsStack
INVARIANT EndsOnlyWhenDone
INVARIANT Bounded
CHECK_DEADLOCK FALSE
