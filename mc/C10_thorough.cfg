SPECIFICATION Spec
CONSTANTS
  Offs <- OffsThorough
  BoundSets <- BoundSetsThorough
  DefBoundSets <- DefBoundSetsThorough
INVARIANT Emit
CHECK_DEADLOCK FALSE
