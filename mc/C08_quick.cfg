SPECIFICATION Spec
CONSTANTS
  MaxLen = 2
  PairLen = 1
INVARIANT Emit
CHECK_DEADLOCK FALSE
