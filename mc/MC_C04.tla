------------------------------- MODULE MC_C04 -------------------------------
(***************************************************************************)
(* L3 / L0: the origin universe for C04 (RustUniverse): serde-derivable    *)
(* Rust type definitions described abstractly; TLC explores a machine that *)
(* builds one root definition step by step (choose kind; add a field /      *)
(* variant; add a container or field attribute).  Field and payload types   *)
(* are Rust type expressions over integers, bool, String, Option, Vec,      *)
(* tuples, fixed arrays, Box, HashMap and references to the helper          *)
(* definitions Inner (a struct) and Kind (a unit enum).  serde's own        *)
(* restrictions are respected (no tuple variants under internal tagging,    *)
(* newtype variants of internally tagged enums hold structs).  Every        *)
(* well-formed state is a case; the Rust source is emitted from it.         *)
(***************************************************************************)
EXTENDS Sequences, FiniteSets, Integers, TLC, Json

CONSTANTS MaxFields, MaxVariants, MaxAttrs

VARIABLES d, nattr
vars == <<d, nattr>>

FieldPool == <<
  [name |-> "count", ty |-> "i64"], [name |-> "small", ty |-> "u8"], [name |-> "flag", ty |-> "bool"],
  [name |-> "first_name", ty |-> "String"], [name |-> "maybe", ty |-> "Option<String>"],
  [name |-> "items", ty |-> "Vec<i64>"], [name |-> "pair", ty |-> "(i64, String)"],
  [name |-> "fixed", ty |-> "[u8; 2]"], [name |-> "boxed", ty |-> "Box<Inner>"],
  [name |-> "map", ty |-> "std::collections::HashMap<String, i64>"], [name |-> "inner", ty |-> "Inner"],
  [name |-> "kind", ty |-> "Kind"], [name |-> "opt_inner", ty |-> "Option<Inner>"], [name |-> "nested", ty |-> "Vec<Option<Inner>>"],
  [name |-> "r#type", ty |-> "i64"],
  [name |-> "single", ty |-> "(i64,)"], [name |-> "singles", ty |-> "Vec<(String,)>"] >>
VariantKinds == <<
  [vkind |-> "unit", tys |-> << >>, fields |-> << >>],
  [vkind |-> "newtype", tys |-> <<"i64">>, fields |-> << >>],
  [vkind |-> "newtype", tys |-> <<"Inner">>, fields |-> << >>],
  [vkind |-> "newtype", tys |-> <<"Option<String>">>, fields |-> << >>],
  [vkind |-> "tuple", tys |-> <<"i64", "String">>, fields |-> << >>],
  [vkind |-> "tuple", tys |-> <<"i64", "String", "bool">>, fields |-> << >>],
  [vkind |-> "newtype", tys |-> <<"Vec<i64>">>, fields |-> << >>],
  [vkind |-> "newtype", tys |-> <<"String">>, fields |-> << >>],
  [vkind |-> "newtype", tys |-> <<"(i64,)">>, fields |-> << >>],
  [vkind |-> "struct", tys |-> << >>, fields |-> << [name |-> "x_val", ty |-> "i64", attrs |-> {}],
                                                       [name |-> "y_val", ty |-> "Option<String>", attrs |-> {}] >>] >>
VarName(i) == CASE i = 1 -> "Alpha" [] i = 2 -> "BetaGamma" [] i = 3 -> "Delta"

Empty == [kind |-> "none"]
(* a three-variant untagged enum every tier visits (recorded finding
   C04-untagged-overlapping-null-variants needs at least three variants) *)
NullOverlap == [kind |-> "enum", tagging |-> "untagged", container |-> {},
                variants |-> << VariantKinds[1] @@ [name |-> VarName(1), idx |-> 1],
                                VariantKinds[2] @@ [name |-> VarName(2), idx |-> 2],
                                VariantKinds[4] @@ [name |-> VarName(3), idx |-> 4] >>]
Init == (d = Empty \/ d = NullOverlap) /\ nattr = 0

ChooseKind ==
    /\ d = Empty /\ UNCHANGED nattr
    /\ \/ d' = [kind |-> "struct", fields |-> << >>, container |-> {}]
       \/ \E t \in {"external", "internal", "adjacent", "untagged"} :
            d' = [kind |-> "enum", tagging |-> t, variants |-> << >>, container |-> {}]
       \/ \E tys \in { <<"i64", "String">>, <<"String">>, <<"Inner">>, <<"Vec<u8>">>, <<"(i64,)">>, << >> } :
            d' = [kind |-> "tuple_struct", tys |-> tys, container |-> {}]

AddField ==
    /\ d.kind = "struct" /\ Len(d.fields) < MaxFields /\ UNCHANGED nattr
    /\ \E i \in DOMAIN FieldPool :
         /\ \A j \in DOMAIN d.fields : d.fields[j].idx < i          \* canonical order, no repeats
         /\ d' = [d EXCEPT !.fields = Append(@, [name |-> FieldPool[i].name, ty |-> FieldPool[i].ty, attrs |-> {}, idx |-> i])]

VariantAllowed(t, v) ==
    /\ (t = "internal" => v.vkind \in {"unit", "struct"} \/ (v.vkind = "newtype" /\ v.tys = <<"Inner">>))
AddVariant ==
    /\ d.kind = "enum" /\ Len(d.variants) < MaxVariants /\ UNCHANGED nattr
    /\ \E i \in DOMAIN VariantKinds :
         /\ VariantAllowed(d.tagging, VariantKinds[i])
         (* tagged enums: canonical order (the order of variants is immaterial); untagged enums:
            every order of distinct variant kinds (serde tries the variants in order) *)
         /\ (d.tagging # "untagged" => \A j \in DOMAIN d.variants : d.variants[j].idx <= i)
         /\ (d.tagging = "untagged" => \A j \in DOMAIN d.variants : d.variants[j].idx # i)
         /\ d' = [d EXCEPT !.variants = Append(@, VariantKinds[i] @@ [name |-> VarName(Len(d.variants) + 1), idx |-> i])]

AddContainerAttr ==
    /\ d.kind \in {"struct", "enum"} /\ nattr < MaxAttrs /\ nattr' = nattr + 1
    /\ \E a \in {"deny_unknown_fields", "rename_all_camel", "rename_all_kebab"} :
         /\ a \notin d.container
         /\ (a = "rename_all_camel" => "rename_all_kebab" \notin d.container)
         /\ (a = "rename_all_kebab" => "rename_all_camel" \notin d.container)
         /\ (a = "deny_unknown_fields" => IF d.kind = "struct" THEN TRUE ELSE d.tagging # "untagged")
         /\ d' = [d EXCEPT !.container = @ \cup {a}]
AddFieldAttr ==
    /\ d.kind = "struct" /\ Len(d.fields) > 0 /\ nattr < MaxAttrs /\ nattr' = nattr + 1
    /\ \E j \in DOMAIN d.fields, a \in {"default", "skip_none", "rename", "default_fn"} :
         /\ a \notin d.fields[j].attrs
         /\ (a = "skip_none" => d.fields[j].ty \in {"Option<String>", "Option<Inner>"})
         (* #[serde(default = "path")] with a function that returns a non-trivial value *)
         /\ (a = "default_fn" => d.fields[j].ty \in {"i64", "String", "Option<String>", "Option<Inner>", "Vec<i64>", "Kind", "Inner"}
                                  /\ "default" \notin d.fields[j].attrs)
         /\ (a = "default" => "default_fn" \notin d.fields[j].attrs)
         /\ d' = [d EXCEPT !.fields[j].attrs = @ \cup {a}]

Next == ChooseKind \/ AddField \/ AddVariant \/ AddContainerAttr \/ AddFieldAttr
Spec == Init /\ [][Next]_vars

WellFormed == /\ d # Empty
              /\ (d.kind = "enum" => Len(d.variants) >= 1)
Emit == WellFormed => PrintT(<<"CASE", ToJson([fam |-> "C04", def |-> d])>>)
=============================================================================
