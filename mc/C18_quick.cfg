SPECIFICATION Spec
CONSTANT MaxSteps = 3
INVARIANT Emit
INVARIANT Inv_LastWins
CHECK_DEADLOCK FALSE
