------------------------------ MODULE MC_C04b ------------------------------
(***************************************************************************)
(* L3: second stage for C04.  Reads the schemas that schemars emitted for   *)
(* the origin universe (abstracted, one per line, IOEnv.SCHEMAS) and        *)
(* generates candidate documents for each root schema with                  *)
(* Instances!Candidates, classified by Schema!Valid.                        *)
(***************************************************************************)
EXTENDS Instances, Json, IOUtils

Rows == ndJsonDeserialize(IOEnv.SCHEMAS)
VARIABLE c
Init == \E k \in DOMAIN Rows : c = Rows[k]
Next == UNCHANGED c
Spec == Init /\ [][Next]_c

Emit == LET cs == Candidates(c.defs["Root0"], c.defs, 3)
        IN PrintT(<<"CASE", ToJson([case |-> c.case,
                                    probes |-> [j \in DOMAIN cs |-> [val |-> cs[j], valid |-> Valid(c.defs["Root0"], cs[j], c.defs)]]])>>)
=============================================================================
