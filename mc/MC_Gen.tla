------------------------------- MODULE MC_Gen -------------------------------
(***************************************************************************)
(* L3: cases from the SchemaGen machine (C02/C03 and, with the compile      *)
(* verdict, C01).  Every finished document is emitted with its candidate    *)
(* instances, classified by Schema!Valid.  Used exhaustively with small     *)
(* bounds and under `tlc -simulate` for deep random documents.              *)
(***************************************************************************)
EXTENDS SchemaGen, FamiliesE, Json

Cap(seq, n) == IF Len(seq) > n THEN SubSeq(seq, 1, n) ELSE seq
Emit == done =>
    LET cs == Cap(Candidates(RootT, AllDefs, 2), 120)
        vv == [j \in DOMAIN cs |-> Valid(RootT, cs[j], AllDefs)]
    IN PrintT(<<"CASE", ToJson([fam |-> "GEN", id |-> "gen", steps |-> steps, supported |-> TRUE,
                                 enforced |-> Enforced(RootT, AllDefs, 3), stringlike |-> FALSE,
                                 settings |-> [builder |-> FALSE],
                                 calls |-> << [call |-> "add_root_schema", doc |-> [defs |-> AllDefs]] >>,
                                 probes |-> [j \in DOMAIN cs |-> [kind |-> "deser", ty |-> [def |-> "T"], val |-> cs[j],
                                                                  valid |-> vv[j],
                                                                  declared |-> OnlyDeclared(RootT, cs[j], AllDefs)]]])>>)
=============================================================================
