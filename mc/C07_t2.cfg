SPECIFICATION Spec
CONSTANTS
  N = 2
  MaxEdges = 3
  EdgeKinds <- Kinds9
INVARIANT Emit
CHECK_DEADLOCK FALSE
