SPECIFICATION Spec
CONSTANT MaxLen = 4
INVARIANT Emit
CHECK_DEADLOCK FALSE
