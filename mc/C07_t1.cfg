SPECIFICATION Spec
CONSTANTS
  N = 1
  MaxEdges = 4
  Prefix = FALSE
  EdgeKinds <- Kinds9
INVARIANT Emit
CHECK_DEADLOCK FALSE
