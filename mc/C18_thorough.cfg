SPECIFICATION Spec
CONSTANT MaxSteps = 4
INVARIANT Emit
INVARIANT Inv_LastWins
CHECK_DEADLOCK FALSE
