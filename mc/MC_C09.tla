------------------------------- MODULE MC_C09 -------------------------------
(***************************************************************************)
(* L3: allOf compositions for C09.  A case is a list of subschemas (over   *)
(* shared definitions); the document holds one definition per permutation  *)
(* of the list (P1, P2, ...), all observed on the same candidate instances: *)
(* candidates of each subschema, of the composition, and unions of the     *)
(* per-branch object instances.                                            *)
(***************************************************************************)
EXTENDS FamiliesE, Json

CONSTANT Tier
VARIABLE c

Comp(id, subs, defs) == [id |-> id, subs |-> subs, defs |-> defs]
NDef == ("N" :> SObj(Props1("q", SInt), {"q"}))
NClosed == ("N" :> SObjClosed(Props1("q", SInt), {"q"}))
NEnum == ("N" :> EnumS(<<JS(<<"a">>), JS(<<"b">>)>>))
OA == SObj(Props1("a", SInt), {"a"})
OB == SObj(Props1("b", SStr), {})
OC == SObj(Props1("c", SBool), {"c"})

Comps == <<
  Comp("disjoint", <<OA, OB>>, << >>),
  Comp("overlap", << SObj(Props2("a", SInt, "b", SStr), {"a"}), SObj(Props1("b", SStr), {"b"}) >>, << >>),
  Comp("closed-first", << SObjClosed(Props1("a", SInt), {"a"}), OB >>, << >>),
  (* unsatisfiable: the closed schema forbids the property the other one requires *)
  Comp("closed-vs-required-other", << SObjClosed(Props1("a", SStr), {}), SObj(Props1("b", SInt), {"b"}) >>, << >>),
  Comp("closed-vs-optional-other", << SObjClosed(Props1("a", SStr), {}), SObj(Props1("b", SInt), {}) >>, << >>),
  Comp("closed-vs-required-shared", << SObjClosed(Props2("a", SStr, "b", SInt), {}), SObj(Props1("b", SInt), {"b"}) >>, << >>),
  Comp("closed-both-same", << SObjClosed(Props2("a", SInt, "b", SStr), {"a"}), SObjClosed(Props2("a", SInt, "b", SStr), {}) >>, << >>),
  Comp("addl-schema", << With(OA, "additionalProperties", SInt), SObj(Props1("b", SInt), {}) >>, << >>),
  Comp("ref-and-obj", << SRef("N"), SObj(Props1("b", SStr), {"b"}) >>, NDef),
  Comp("ref-closed-and-obj", << SRef("N"), SObj(Props1("q", SInt), {}) >>, NClosed),
  Comp("three", << OA, OB, OC >>, << >>),
  Comp("str-enum", << SStr, EnumS(<<JS(<<"a">>), JS(<<"b">>)>>) >>, << >>),
  Comp("enum-enum", << EnumS(<<JS(<<"a">>), JS(<<"b">>)>>), EnumS(<<JS(<<"b">>), JS(<<"c">>)>>) >>, << >>),
  Comp("ref-enum-enum", << SRef("N"), EnumS(<<JS(<<"b">>), JS(<<"c">>)>>) >>, NEnum),
  Comp("types", << [types |-> <<"string", "integer">>], SInt >>, << >>),
  Comp("arr-items", << SArr(SInt), [type |-> "array", items |-> [type |-> "integer"]] >>, << >>),
  Comp("arr-and-any", << SArr(SStr), [type |-> "array"] >>, << >>),
  Comp("nested-oneof", << SOneOf(<< SObjClosed(Props1("x", SInt), {"x"}), SObjClosed(Props1("y", SStr), {"y"}) >>),
                          SObj(Props1("x", SInt), {}) >>, << >>),
  Comp("oneof-and-obj", << SOneOf(<< SObj(Props1("x", SInt), {"x"}), SObj(Props1("y", SStr), {"y"}) >>), OC >>, << >>),
  Comp("num-enum-number", << [enum |-> <<JInt(1), JHalf(5), JInt(4)>>], SNum >>, << >>),
  Comp("int-enum-integer", << [enum |-> <<JInt(1), JInt(2), JInt(3)>>], SInt >>, << >>),
  Comp("int-enum-number", << [enum |-> <<JInt(1), JInt(2)>>], SNum >>, << >>),
  Comp("typed-num-enum-number", << [type |-> "number", enum |-> <<JInt(0), JHalf(3)>>], SNum >>, << >>),
  Comp("bool-enum-boolean", << [enum |-> <<JBool(TRUE)>>], SBool >>, << >>),
  Comp("mixed-enum-string", << [enum |-> <<JInt(1), JS(<<"a">>), JS(<<"b">>)>>], SStr >>, << >>),
  Comp("mixed-enum-integer", << [enum |-> <<JInt(1), JS(<<"a">>), JInt(7)>>], SInt >>, << >>),
  Comp("ref-num-enum-number", << SRef("N"), SNum >>, ("N" :> [enum |-> <<JInt(1), JHalf(5), JInt(4)>>])),
  Comp("int-and-number", << SInt, SNum >>, << >>),
  Comp("number-and-uint8", << SNum, [type |-> "integer", format |-> "uint8"] >>, << >>),
  Comp("number-and-typelist", << SNum, [types |-> <<"string", "integer">>] >>, << >>),
  (* recorded findings of the thorough pools, kept in the quick tier *)
  Comp("arr-items-conflict", << SArr(SInt), SArr(SStr) >>, << >>),
  Comp("uint8-and-int32", << [type |-> "integer", format |-> "uint8"], [type |-> "integer", format |-> "int32"] >>, << >>),
  Comp("nonzero-enum-with-zero", << [type |-> "number", minimum |-> JInt(1)], [type |-> "integer", enum |-> <<JInt(0), JInt(7), JInt(300)>>] >>, << >>),
  (* tuple-form items without a length bound: incompatible positions truncate the merged tuple,
     which stays satisfiable while minItems does not exceed the truncation point *)
  Comp("open-tuples-conflict-at-min", << [type |-> "array", itemsList |-> <<SInt, SInt, SInt>>, minItems |-> 2],
                                         [type |-> "array", itemsList |-> <<SInt, SInt, SStr>>] >>, << >>),
  Comp("open-tuples-conflict-below-min", << [type |-> "array", itemsList |-> <<SInt, SInt, SInt>>, minItems |-> 3],
                                            [type |-> "array", itemsList |-> <<SInt, SInt, SStr>>] >>, << >>),
  Comp("open-tuple-vs-items", << [type |-> "array", itemsList |-> <<SInt, SStr>>], SArr(SInt) >>, << >>),
  Comp("open-tuple-vs-items-min2", << [type |-> "array", itemsList |-> <<SInt, SStr>>, minItems |-> 2], SArr(SInt) >>, << >>),
  (* the ip family of formats: the general one next to a specific one keeps the specific one *)
  Comp("ipv6-and-ip", << [type |-> "string", format |-> "ipv6"], [type |-> "string", format |-> "ip"] >>, << >>),
  Comp("ipv4-and-ip", << [type |-> "string", format |-> "ipv4"], [type |-> "string", format |-> "ip"] >>, << >>),
  Comp("ipv4-and-ipv6", << [type |-> "string", format |-> "ipv4"], [type |-> "string", format |-> "ipv6"] >>, << >>),
  Comp("uuid-and-plain", << [type |-> "string", format |-> "uuid"], SStr >>, << >>),
  Comp("date-and-datetime", << [type |-> "string", format |-> "date"], [type |-> "string", format |-> "date-time"] >>, << >>),
  Comp("unsat-types", << SStr, SInt >>, << >>),
  Comp("unsat-enums", << EnumS(<<JS(<<"a">>)>>), EnumS(<<JS(<<"b">>)>>) >>, << >>),
  Comp("unsat-required-false", << SObj(Props1("a", SFalse), {}), SObj(Props1("a", SInt), {"a"}) >>, << >>),
  Comp("same-twice", << OA, OA >>, << >>),
  Comp("true-and-obj", << STrue, OA >>, << >>) >>

(* thorough tier: every unordered pair of an object pool and of a scalar pool, and every triple of
   the first five object schemas *)
ObjPool == << OA, OB, OC, SObjClosed(Props1("a", SInt), {"a"}), SObj(Props2("a", SInt, "b", SStr), {"a"}),
              SObj(Props1("a", SStr), {}), With(OB, "additionalProperties", SInt), SRef("N"),
              SObj(Props1("b", EnumS(<<JS(<<"a">>), JS(<<"b">>)>>)), {}),
              SObj(Props1("b", EnumS(<<JS(<<"b">>), JS(<<"c">>)>>)), {"b"}),
              [type |-> "object", required |-> <<"a">>],
              SObj(Props1("a", SNullable(SInt)), {}),
              SObjClosed(Props1("a", SStr), {}), SObj(Props1("b", SInt), {"b"}) >>
ScalarPool == << SStr, SInt, SNum, EnumS(<<JS(<<"a">>), JS(<<"b">>)>>), EnumS(<<JS(<<"b">>), JS(<<"c">>)>>),
                 [type |-> "string", minLength |-> 1], [type |-> "string", maxLength |-> 1],
                 [types |-> <<"string", "integer">>], [enum |-> <<JInt(1), JInt(2), JInt(3)>>],
                 [enum |-> <<JInt(1), JS(<<"a">>)>>], [type |-> "integer", format |-> "uint8"] >>
(* numeric bounds, formats and multiples; array shapes *)
NumPool == << SInt, SNum, [type |-> "integer", minimum |-> JInt(0)], [type |-> "integer", maximum |-> JInt(10)],
              [type |-> "integer", minimum |-> JInt(5), maximum |-> JInt(20)], [type |-> "number", minimum |-> JInt(1)],
              [type |-> "integer", format |-> "uint8"], [type |-> "integer", format |-> "int32"],
              [type |-> "integer", exclusiveMaximum |-> JInt(10)], [type |-> "integer", enum |-> <<JInt(0), JInt(7), JInt(300)>>] >>
ArrPool == << SArr(SInt), SArr(SNum), SArr(SStr), [type |-> "array", minItems |-> 1], [type |-> "array", items |-> SInt, maxItems |-> 1],
              STuple(<<SInt, SStr>>), STuple(<<SNum, SStr>>), SFixed(SInt, 2), SSet(SInt), [type |-> "array"] >>
PairsOf(pool, pre, defs) ==
    LET ps == SetToSeq({ p \in (DOMAIN pool) \X (DOMAIN pool) : p[1] < p[2] })
    IN [k \in DOMAIN ps |-> Comp(pre \o "-" \o ToString(ps[k][1]) \o "-" \o ToString(ps[k][2]),
                                 << pool[ps[k][1]], pool[ps[k][2]] >>, defs)]
TriplesOf(pool, n, pre, defs) ==
    LET ts == SetToSeq({ p \in (1 .. n) \X (1 .. n) \X (1 .. n) : p[1] < p[2] /\ p[2] < p[3] })
    IN [k \in DOMAIN ts |-> Comp(pre \o "-" \o ToString(ts[k][1]) \o "-" \o ToString(ts[k][2]) \o "-" \o ToString(ts[k][3]),
                                 << pool[ts[k][1]], pool[ts[k][2]], pool[ts[k][3]] >>, defs)]
AllComps == IF Tier = "thorough"
            THEN Comps \o PairsOf(ObjPool, "po", NDef) \o PairsOf(ScalarPool, "ps", << >>) \o TriplesOf(ObjPool, 5, "to", NDef)
                 \o PairsOf(NumPool, "pn", << >>) \o PairsOf(ArrPool, "pa", << >>)
            ELSE Comps

Init == \E k \in DOMAIN AllComps : c = AllComps[k]
Next == UNCHANGED c
Spec == Init /\ [][Next]_c

Perms2 == << <<1, 2>>, <<2, 1>> >>
Perms3 == << <<1, 2, 3>>, <<1, 3, 2>>, <<2, 1, 3>>, <<2, 3, 1>>, <<3, 1, 2>>, <<3, 2, 1>> >>
Perms == IF Len(c.subs) = 2 THEN Perms2 ELSE Perms3
PName(k) == CASE k = 1 -> "P1" [] k = 2 -> "P2" [] k = 3 -> "P3" [] k = 4 -> "P4" [] k = 5 -> "P5" [] k = 6 -> "P6"
PermSubs(k) == [j \in DOMAIN Perms[k] |-> c.subs[Perms[k][j]]]
Defs == [n \in { PName(k) : k \in DOMAIN Perms } |-> SAllOf(PermSubs(CHOOSE k \in DOMAIN Perms : PName(k) = n))] @@ c.defs
A == SAllOf(c.subs)

(* union of two objects (members of b win) *)
JMerge(a, b) == IF a.t # "obj" \/ b.t # "obj" THEN b
                ELSE LET ka == SelectSeq(a.k, LAMBDA k : ~HasKey(b, k))
                     IN JObj(ka \o b.k, [i \in DOMAIN ka |-> Get(a, ka[i])] \o b.v)
Goods == [i \in DOMAIN c.subs |-> Good(c.subs[i], Defs, 2)]
RECURSIVE MergeAll(_, _)
MergeAll(gs, i) == IF i > Len(gs) THEN JEmptyObj ELSE JMerge(gs[i], MergeAll(gs, i + 1))
Cands == Flat([i \in DOMAIN c.subs |-> Inst(c.subs[i], Defs, 2)])
         \o << MergeAll(Goods, 1) >>
         \o [i \in DOMAIN c.subs |-> JMerge(MergeAll(Goods, 1), Goods[i])]
         \o WrongTypes

Emit ==
    LET cs == Cands
        vv == [j \in DOMAIN cs |-> Valid(A, cs[j], Defs)]
        probes == Flat([k \in DOMAIN Perms |->
                     [j \in DOMAIN cs |-> [kind |-> "deser", ty |-> [def |-> PName(k)], val |-> cs[j],
                                            perm |-> k, cand |-> j, valid |-> vv[j]]]])
    IN PrintT(<<"CASE", ToJson([fam |-> "C09", id |-> c.id, nperm |-> Len(Perms), ncand |-> Len(cs),
                                 subs |-> c.subs,
                                 settings |-> [builder |-> FALSE],
                                 calls |-> << [call |-> "add_root_schema", doc |-> [defs |-> Defs]] >>,
                                 merges |-> [k \in DOMAIN Perms |-> [perm |-> k, subs |-> PermSubs(k)]],
                                 probes |-> probes])>>)
=============================================================================
