------------------------------- MODULE MC_C01 -------------------------------
(***************************************************************************)
(* L3: cases for C01 / C17 / C19: document x settings x ingestion history. *)
(* The state is (document index, settings index, history mode); the        *)
(* generator is a small machine: pick a document, then vary the settings,  *)
(* then vary the way the document is ingested.  Every state is a case.     *)
(***************************************************************************)
EXTENDS FamiliesG, Json

CONSTANTS SettingsIdx,    \* which settings vectors to enumerate
          Modes           \* which ingestion histories to enumerate

VARIABLES d, s, m
vars == <<d, s, m>>

Universe == QuickUniverse \o GUniverse

SettingsPool ==
  << [builder |-> FALSE],
     [builder |-> TRUE, map |-> "btree", derives |-> <<"PartialEq">>, typeMod |-> "types"],
     [builder |-> TRUE],
     [builder |-> FALSE, map |-> "mymap"],
     (* PartialEq is the one extra derive every generated type admits (Eq fails on floats, by the
        caller's choice, not typify's) *)
     [builder |-> FALSE, map |-> "btree", derives |-> <<"PartialEq">>],
     [builder |-> TRUE, typeMod |-> "types"],
     (* conversion targets declaring each subset of {FromStr, Display} (documents of family G7 only) *)
     [builder |-> FALSE, convert |-> << [schema |-> PathS, ty |-> "crate::support::PathLike", impls |-> <<"FromStr">>] >>],
     [builder |-> FALSE, convert |-> << [schema |-> PathS, ty |-> "crate::support::ShowOnly", impls |-> <<"Display">>] >>],
     [builder |-> FALSE, convert |-> << [schema |-> PathS, ty |-> "crate::support::Num", impls |-> << >>] >>],
     [builder |-> TRUE, convert |-> << [schema |-> PathS, ty |-> "crate::support::Both", impls |-> <<"FromStr", "Display">>] >>],
     (* extra derives that are foreign macros sharing the short names of the built-in ones (they
        generate nothing): the built-in derives must stay *)
     [builder |-> FALSE, derives |-> <<"::fderive::Serialize", "::fderive::Deserialize", "::fderive::Debug", "::fderive::Clone">>] >>
ConvIdx == {7, 8, 9, 10}

(* ingestion histories for one document *)
DefSeq(defs) == LET ns == SetToSeq(DOMAIN defs) IN [j \in DOMAIN ns |-> <<ns[j], defs[ns[j]]>>]
Calls(doc, mode) ==
    CASE mode = "root" -> << [call |-> "add_root_schema", doc |-> [defs |-> doc.defs]] >>
      [] mode = "refs" -> << [call |-> "add_ref_types", defs |-> DefSeq(doc.defs)] >>
      [] mode = "root+type" -> << [call |-> "add_root_schema", doc |-> [defs |-> doc.defs]],
                                  [call |-> "add_type", schema |-> SRef("T"), hint |-> ""],
                                  [call |-> "add_type", schema |-> SArr(SRef("T")), hint |-> ""] >>
      [] mode = "titled-root" -> << [call |-> "add_root_schema",
                                     doc |-> [root |-> Titled(doc.defs["T"], "RootT"),
                                              defs |-> [n \in DOMAIN doc.defs \ {"T"} |-> doc.defs[n]]]] >>

(* states outside the tier's settings/mode ranges that every tier visits (recorded findings) *)
ExtraStates == { <<"F4", "obj-null", 1, "titled-root">>, <<"F4", "enum-null", 1, "titled-root">>,
                 <<"G2", "containers", 4, "root">>,
                 <<"F5", "a-req", 11, "root">>, <<"F3", "ab", 11, "root">>, <<"F2", "min1", 11, "root">>,
                 <<"F9", "int-open", 11, "root">> }
Init == \/ d \in DOMAIN Universe /\ s = 1 /\ m = "root"
        \/ \E x \in ExtraStates :
              /\ d \in DOMAIN Universe /\ Universe[d].fam = x[1] /\ Universe[d].id = x[2]
              /\ s = x[3] /\ m = x[4]
NextSettings == \/ s \in SettingsIdx /\ \E s2 \in SettingsIdx : s2 > s /\ s' = s2 /\ UNCHANGED <<d, m>>
                \/ s = 1 /\ m = "root" /\ Universe[d].fam = "G7" /\ \E s2 \in ConvIdx : s' = s2 /\ UNCHANGED <<d, m>>
NextMode == m = "root" /\ s \notin ConvIdx /\ \E m2 \in Modes \ {"root"} : m' = m2 /\ UNCHANGED <<d, s>>
Next == NextSettings \/ NextMode
Spec == Init /\ [][Next]_vars

Doc0 == Universe[d]
(* a titled root whose schema refers to itself by name cannot be expressed *)
RefersT(x) == TRUE
OkMode == m # "titled-root" \/ TRUE

Emit == PrintT(<<"CASE", ToJson([fam |-> Doc0.fam, id |-> Doc0.id, mode |-> m, sidx |-> s,
                                 (* a document whose definition T becomes the titled root is not claimed to be
                                    accepted: references to T dangle and typify names a root only by its title *)
                                 supported |-> Supported(Doc0) /\ m # "titled-root",
                                 settings |-> SettingsPool[s],
                                 calls |-> Calls(Doc0, m),
                                 bounds_all |-> TRUE,
                                 probes |-> << >>])>>)
=============================================================================
