SPECIFICATION Spec
CONSTANTS
  MaxFields = 1
  MaxVariants = 2
  MaxAttrs = 1
INVARIANT Emit
CHECK_DEADLOCK FALSE
