------------------------------- MODULE MC_C07 -------------------------------
(***************************************************************************)
(* L3: reference multigraphs for C07.  The state is a graph under          *)
(* construction: node kinds are chosen first, then edges are appended in   *)
(* non-decreasing order (so that each multigraph is built once).  Every    *)
(* state with well-formed nodes is a case; the schema document is built    *)
(* here, in TLA+, from the graph.                                          *)
(***************************************************************************)
EXTENDS SchemaLib, Containment, Json

CONSTANTS N,          \* number of definitions
          MaxEdges,   \* bound on the number of edges
          EdgeKinds,  \* sequence of edge kinds (the alphabet, ordered)
          Prefix      \* TRUE: an unrelated batch of definitions is added to the type space first

Kinds9 == <<"required", "optional", "nullable", "tuple", "array", "vec", "map">>
Kinds4 == <<"required", "optional", "tuple", "vec">>

VARIABLES kinds, edges
vars == <<kinds, edges>>

NodeKinds == {"struct", "alias", "enum", "union"}
KindIdx(k) == CHOOSE i \in DOMAIN EdgeKinds : EdgeKinds[i] = k

EdgeLe(a, b) == \/ a.from < b.from
                \/ a.from = b.from /\ a.to < b.to
                \/ a.from = b.from /\ a.to = b.to /\ KindIdx(a.kind) <= KindIdx(b.kind)

Init == /\ kinds \in [1 .. N -> NodeKinds]
        /\ Cardinality({ n \in 1 .. N : kinds[n] = "union" }) <= 1
        /\ edges = << >>

OutDeg(es, n) == Cardinality({ i \in DOMAIN es : es[i].from = n })

AddEdge == /\ Len(edges) < MaxEdges
           /\ \E f \in 1 .. N, t \in 1 .. N, k \in { EdgeKinds[i] : i \in DOMAIN EdgeKinds } :
                LET e == [from |-> f, to |-> t, kind |-> k] IN
                /\ (Len(edges) > 0 => EdgeLe(edges[Len(edges)], e))
                /\ (kinds[f] = "alias" => OutDeg(edges, f) = 0)   \* an alias has one target
                /\ edges' = Append(edges, e)
           /\ UNCHANGED kinds

Next == AddEdge
Spec == Init /\ [][Next]_vars

(* ---- graph -> schema document ------------------------------------------- *)
NodeName(n) == CASE n = 1 -> "N1" [] n = 2 -> "N2" [] n = 3 -> "N3" [] n = 4 -> "N4"
PropName(j) == CASE j = 1 -> "p1" [] j = 2 -> "p2" [] j = 3 -> "p3" [] j = 4 -> "p4" [] j = 5 -> "p5"
VarName(j)  == CASE j = 1 -> "V1" [] j = 2 -> "V2" [] j = 3 -> "V3" [] j = 4 -> "V4" [] j = 5 -> "V5"

EdgeSchema(e) ==
    LET r == SRef(NodeName(e.to)) IN
    CASE e.kind = "required" -> r
      [] e.kind = "optional" -> r
      [] e.kind = "nullable" -> SNullable(r)
      [] e.kind = "tuple"    -> STuple(<<r, SInt>>)
      [] e.kind = "array"    -> SFixed(r, 2)
      [] e.kind = "vec"      -> SArr(r)
      [] e.kind = "map"      -> SMap(r)

Out(n) == SelectSeq(edges, LAMBDA e : e.from = n)

StructSchema(n) ==
    LET out == Out(n)
        idx == DOMAIN out
    IN SObj([p \in { PropName(j) : j \in idx } |->
                EdgeSchema(out[CHOOSE j \in idx : PropName(j) = p])],
            { PropName(j) : j \in { i \in idx : out[i].kind # "optional" } })

AliasSchema(n) == IF Len(Out(n)) = 0 THEN SStr ELSE EdgeSchema(Out(n)[1])

(* externally tagged enum: one unit variant plus one single-key object per edge *)
EnumSchema(n) ==
    LET out == Out(n) IN
    SOneOf(<< [type |-> "string", enum |-> << [t |-> "str", c |-> <<"U">>] >>] >> \o
           [j \in DOMAIN out |->
              [type |-> "object",
               properties |-> (VarName(j) :> EdgeSchema(out[j])),
               required |-> <<VarName(j)>>,
               additionalProperties |-> SFalse]])

(* an anyOf with one branch per edge: typify renders it as an untagged enum when it proves the
   branches exclusive and as a struct of flattened optional members otherwise *)
UnionSchema(n) ==
    LET out == Out(n) IN
    IF Len(out) = 0 THEN SStr ELSE SAnyOf([j \in DOMAIN out |-> EdgeSchema(out[j])])

DefSchema(n) == CASE kinds[n] = "struct" -> StructSchema(n)
                  [] kinds[n] = "alias"  -> AliasSchema(n)
                  [] kinds[n] = "enum"   -> EnumSchema(n)
                  [] kinds[n] = "union"  -> UnionSchema(n)

Doc == [defs |-> [d \in { NodeName(n) : n \in 1 .. N } |->
                    DefSchema(CHOOSE n \in 1 .. N : NodeName(n) = d)]]

Emit == PrintT(<<"CASE", ToJson([n |-> N, kinds |-> kinds, edges |-> edges,
                                 schema_acyclic |-> SchemaAcyclic(N, edges),
                                 calls |-> (IF Prefix
                                            THEN << [call |-> "add_ref_types",
                                                     defs |-> << <<"Pre", SObj(Props1("z", SInt), {})>>,
                                                                 <<"Pre2", SObj(Props2("one", SRef("Pre"), "many", SArr(SRef("Pre"))), {"one"})>> >>] >>
                                            ELSE << >>)
                                           \o << [call |-> "add_root_schema", doc |-> Doc] >>])>>)
=============================================================================
