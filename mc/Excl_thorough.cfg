SPECIFICATION Spec
CONSTANTS
  Tier = "thorough"
INVARIANT Emit
CHECK_DEADLOCK FALSE
