------------------------------- MODULE MC_C08 -------------------------------
(***************************************************************************)
(* L3: names for C08.  The generator is a machine over character           *)
(* sequences: a name grows by appending one character of the               *)
(* representative alphabet (XID_Start lower/upper, digit, '_', '-', ''',   *)
(* space, symbols, non-ASCII letters of 2 bytes, an XID_Continue-only      *)
(* character, a title-case digraph, a 4-byte non-identifier character);    *)
(* every reachable name is used as a property name, as an enumerated       *)
(* value and as a definition key.  Pairs: every pair of names up to        *)
(* PairLen, plus a pool of pairs that differ only in case or separators.   *)
(* Keyword atoms in three casings are initial states of their own.         *)
(***************************************************************************)
EXTENDS FamiliesE, KeywordData, Json

CONSTANTS MaxLen, PairLen

VARIABLES n1, n2, mode     \* mode: "single" | "pair"
vars == <<n1, n2, mode>>

Alphabet == <<"a", "B", "1", "_", "-", "'", " ", "$", "+", ".", "<e9>", "<df>", "<b7>", "<1c6>", "<1d11e>">>
Chars == { Alphabet[i] : i \in DOMAIN Alphabet }

PairPool == << << <<"f","o","o","-","b","a","r">>, <<"f","o","o","_","b","a","r">> >>,
               << <<"a"," ","b">>, <<"a","_","b">> >>,
               << <<"s","e","l","f">>, <<"S","e","l","f">> >>,
               << <<"t","y","p","e">>, <<"t","y","p","e","_">> >>,
               << <<"1","a">>, <<"_","1","a">> >>,
               << <<"x","1">>, <<"x","-","1">> >>,
               << <<"a","B">>, <<"a","_","b">> >>,
               << <<"A","B">>, <<"a","b">> >>,
               << <<"<e9>">>, <<"<c9>">> >>,
               << <<"a","+">>, <<"a","-">> >>,
               << <<"$">>, <<"+">> >>,
               << <<"X">>, <<"+">> >> >>

KwAll == KeywordsLower \o KeywordsPascal \o KeywordsUpper

Init == \/ n1 = << >> /\ n2 = << >> /\ mode = "single"
        \/ \E i \in DOMAIN KwAll : n1 = KwAll[i] /\ n2 = << >> /\ mode = "kw"
        \/ \E i \in DOMAIN PairPool : n1 = PairPool[i][1] /\ n2 = PairPool[i][2] /\ mode = "pair"
        \/ n1 = << >> /\ n2 = <<"a">> /\ mode = "pair"

Grow1 == mode \in {"single", "pair"} /\ Len(n1) < (IF mode = "single" THEN MaxLen ELSE PairLen)
         /\ \E ch \in Chars : n1' = Append(n1, ch) /\ UNCHANGED <<n2, mode>>
Grow2 == mode = "pair" /\ Len(n2) < PairLen /\ Len(n2) >= 1 /\ Len(n2) <= 2
         /\ \E ch \in Chars : n2' = Append(n2, ch) /\ UNCHANGED <<n1, mode>>
Swap2 == mode = "pair" /\ Len(n2) = 1 /\ \E ch \in Chars : n2' = <<ch>> /\ UNCHANGED <<n1, mode>>
Next == Grow1 \/ Grow2 \/ Swap2
Spec == Init /\ [][Next]_vars

Names == IF mode = "pair" THEN <<n1, n2>> ELSE <<n1>>
Distinct == mode # "pair" \/ n1 # n2

QObj == SObj(Props1("q", SInt), {"q"})
Idx == DOMAIN Names
RName(i) == IF i = 1 THEN "r1" ELSE "r2"

(* the three contexts: each name as a property name, an enumerated value, a definition key *)
PropDoc == [defsList |-> << <<"T", [type |-> "object",
                                   propsList |-> [i \in Idx |-> <<Names[i], SInt>>],
                                   required |-> Names]>> >>]
PropInst == JObj(Names, [i \in Idx |-> JInt(i)])
EnumDoc == [defsList |-> << <<"T", [type |-> "string", enum |-> [i \in Idx |-> JStr(Names[i])]]>> >>]
DefDoc == [defsList |-> [i \in Idx |-> <<Names[i], QObj>>]
                        \o << <<"T", SObj([r \in { RName(i) : i \in Idx } |->
                                              [ref |-> Names[CHOOSE i \in Idx : RName(i) = r]]], { RName(i) : i \in Idx })>> >>]
DefInst == JObj([i \in Idx |-> RName(i)], [i \in Idx |-> JObj1("q", JInt(i))])

(* names as variant names of an externally tagged enum (single-property closed objects in a oneOf),
   for each payload kind; only for short names, keywords and the pair pool (bounded compile load) *)
Payload(k) == CASE k = "int" -> SInt
                [] k = "tuple1" -> STuple(<<SStr>>)
                [] k = "tuple2" -> STuple(<<SInt, SStr>>)
                [] k = "struct" -> SObj(Props1("f", SInt), {"f"})
PayloadVal(k) == CASE k = "int" -> JInt(7)
                   [] k = "tuple1" -> JArr(<<JS(<<"x">>)>>)
                   [] k = "tuple2" -> JArr(<<JInt(1), JS(<<"x">>)>>)
                   [] k = "struct" -> JObj1("f", JInt(3))
VarDoc(k) == [defsList |-> << <<"T", [oneOf |-> [i \in Idx |->
                  [type |-> "object", propsList |-> << <<Names[i], Payload(k)>> >>, required |-> <<Names[i]>>,
                   additionalProperties |-> SFalse]]]>> >>]
VarInsts(k) == [i \in Idx |-> JObj(<<Names[i]>>, <<PayloadVal(k)>>)]
VariantCtx == mode = "kw" \/ (mode = "single" /\ Len(n1) <= 1) \/ (mode = "pair" /\ Len(n1) > 1 /\ Len(n2) > 1)

(* names as property names for each kind of member (the serde attributes of a property are assembled
   per kind: optional scalar, optional map typed / untyped, optional array, explicit default) *)
PropKinds == <<"opt", "optmap", "optanymap", "optvec", "dflt">>
PropKindSchema(k) == CASE k = "opt" -> SInt
                       [] k = "optmap" -> SMap(SInt)
                       [] k = "optanymap" -> SMap(STrue)
                       [] k = "optvec" -> SArr(SInt)
                       [] k = "dflt" -> With(SInt, "default", JInt(5))
PropKindVal(k) == CASE k = "opt" -> JInt(3)
                    [] k = "optmap" -> JObj1("k", JInt(1))
                    [] k = "optanymap" -> JObj1("k", JS(<<"v">>))
                    [] k = "optvec" -> JArr(<<JInt(1)>>)
                    [] k = "dflt" -> JInt(6)
PropKindDoc(k) == [defsList |-> << <<"T", [type |-> "object",
                                          propsList |-> [i \in Idx |-> <<Names[i], PropKindSchema(k)>>],
                                          required |-> << >>]>> >>]
PropKindInst(k) == JObj(Names, [i \in Idx |-> PropKindVal(k)])

Case(ctx, doc, insts) ==
    [fam |-> "C08", ctx |-> ctx, mode |-> mode, names |-> Names,
     settings |-> [builder |-> TRUE],
     calls |-> << [call |-> "add_root_schema", doc |-> doc] >>,
     probes |-> [j \in DOMAIN insts |-> [kind |-> "deser", ty |-> [def |-> "T"], val |-> insts[j]]]]

Emit == Distinct =>
    /\ PrintT(<<"CASE", ToJson(Case("prop", PropDoc, <<PropInst>>))>>)
    /\ PrintT(<<"CASE", ToJson(Case("enum", EnumDoc, [i \in Idx |-> JStr(Names[i])]))>>)
    /\ PrintT(<<"CASE", ToJson(Case("def", DefDoc, <<DefInst>>))>>)
    /\ (VariantCtx => \A k \in {"int", "tuple1", "tuple2", "struct"} :
            PrintT(<<"CASE", ToJson(Case("var-" \o k, VarDoc(k), VarInsts(k)))>>))
    /\ (VariantCtx => \A i \in DOMAIN PropKinds :
            PrintT(<<"CASE", ToJson(Case("prop-" \o PropKinds[i], PropKindDoc(PropKinds[i]), <<PropKindInst(PropKinds[i])>>))>>))
=============================================================================
