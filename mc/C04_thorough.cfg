SPECIFICATION Spec
CONSTANTS
  MaxFields = 2
  MaxVariants = 3
  MaxAttrs = 2
INVARIANT Emit
CHECK_DEADLOCK FALSE
