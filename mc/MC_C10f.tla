------------------------------ MODULE MC_C10f ------------------------------
(***************************************************************************)
(* L3: the non-integer half of C10 - string and number schemas with a      *)
(* format: recognised string formats map to the documented types,          *)
(* unrecognised formats degrade to String / f64, never to something        *)
(* narrower.  One state per (type, format, spelling); the contract         *)
(* (FormatExpected) is evaluated by the trace specification on what the    *)
(* real add_type chose.                                                    *)
(***************************************************************************)
EXTENDS TLC, Json, Sequences

VARIABLE c
StrFormats == {"", "uuid", "date", "date-time", "ip", "ipv4", "ipv6", "hostname", "email", "uri", "time", "duration",
               "byte", "binary", "password", "regex", "partial-date-time", "unknown-format", "int32", "float"}
NumFormats == {"", "float", "double", "unknown-format", "int32", "uuid"}
Init == \/ \E f \in StrFormats, sp \in {"plain", "nullable", "split"} : c = [ty |-> "string", fmt |-> f, spelling |-> sp]
        \/ \E f \in NumFormats, sp \in {"plain", "nullable", "split"} : c = [ty |-> "number", fmt |-> f, spelling |-> sp]
Next == UNCHANGED c
Spec == Init /\ [][Next]_c
Emit == PrintT(<<"CASE", ToJson(c)>>)
=============================================================================
