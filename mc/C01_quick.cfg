SPECIFICATION Spec
CONSTANTS
  SettingsIdx = {1, 2}
  Modes = {"root", "refs"}
INVARIANT Emit
CHECK_DEADLOCK FALSE
