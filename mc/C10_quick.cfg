SPECIFICATION Spec
CONSTANTS
  Offs <- OffsQuick
  BoundSets <- BoundSetsQuick
  DefBoundSets <- DefBoundSetsQuick
INVARIANT Emit
CHECK_DEADLOCK FALSE
