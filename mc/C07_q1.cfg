SPECIFICATION Spec
CONSTANTS
  N = 1
  MaxEdges = 3
  EdgeKinds <- Kinds9
INVARIANT Emit
CHECK_DEADLOCK FALSE
