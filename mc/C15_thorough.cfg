SPECIFICATION Spec
CONSTANT MaxOpts = 2
INVARIANT Emit
CHECK_DEADLOCK FALSE
