------------------------------- MODULE MC_C18 -------------------------------
(***************************************************************************)
(* L3: builder behaviours for C18.  The machine of ContractBuilder is      *)
(* explored by TLC: state = (struct, slots, history of setter calls);      *)
(* actions Set(p, value) / SetBad(p); every reachable state is a case      *)
(* "apply this history, then build".  The history is hidden from the       *)
(* fingerprint by the VIEW (two histories reaching the same slots with the *)
(* same last values are one state) - but it is the history that is         *)
(* replayed, so a representative of each state is emitted.                 *)
(***************************************************************************)
EXTENDS ContractBuilder, FamiliesE, Json

CONSTANT MaxSteps
VARIABLES st, slots, vals, hist
vars == <<st, slots, vals, hist>>

Name1 == [type |-> "string", minLength |-> 1]
U8 == [type |-> "integer", format |-> "uint8"]

(* struct descriptions: schema, value pool per property (tagged JSON), and
   an inconvertible argument expression where the property type has one *)
P(name, schema, req, vs, badexpr) == [name |-> name, schema |-> schema, req |-> req, vs |-> vs, badexpr |-> badexpr]
Structs == <<
  [id |-> "basic", extra |-> << >>, props |-> <<
     P("a", SInt, TRUE, <<JInt(1), JInt(2)>>, ""),
     P("b", SStr, FALSE, <<JS(<<"x">>)>>, ""),
     P("c", With(SInt, "default", JInt(5)), FALSE, <<JInt(7)>>, ""),
     P("d", SArr(SInt), FALSE, <<JArr(<<JInt(1)>>)>>, "") >>],
  [id |-> "fallible", extra |-> ("Name" :> Name1), props |-> <<
     P("n", SRef("Name"), TRUE, <<JS(<<"o","k">>)>>, "String::new()"),
     P("u", U8, TRUE, <<JInt(7)>>, "300u64"),
     P("o", SNullable(SRef("Name")), FALSE, <<JS(<<"z">>)>>, "") >>],
  [id |-> "keyword-names", extra |-> << >>, props |-> <<
     P("type", SInt, TRUE, <<JInt(1)>>, ""),
     P("a-b", With(SStr, "default", JS(<<"d">>)), FALSE, <<JS(<<"x">>)>>, "") >>],
  [id |-> "default-kinds", extra |-> ("Col" :> EnumS(<<JS(<<"r">>), JS(<<"g">>)>>)), props |-> <<
     P("neg", With([type |-> "integer", format |-> "int32"], "default", JInt(-3)), FALSE, <<JInt(4)>>, ""),
     P("txt", With(SStr, "default", JS(<<"d">>)), FALSE, <<JS(<<"x">>)>>, ""),
     P("vec", With(SArr(SInt), "default", JArr(<<JInt(1), JInt(2)>>)), FALSE, <<JArr(<< >>)>>, ""),
     P("col", With(SRef("Col"), "default", JS(<<"g">>)), FALSE, <<JS(<<"r">>)>>, ""),
     P("u", With([type |-> "integer", format |-> "uint8"], "default", JInt(7)), FALSE, <<JInt(0)>>, "300u64") >>],
  (* a struct on a containment cycle: the cycle breaker boxes `next` *)
  [id |-> "recursive", extra |-> << >>, props |-> <<
     P("v", SInt, TRUE, <<JInt(1)>>, ""),
     P("next", SRef("T"), FALSE, <<JObj1("v", JInt(2))>>, ""),
     P("kids", SArr(SRef("T")), FALSE, <<JArr(<<JObj1("v", JInt(3))>>)>>, "") >>],
  (* the same, with an earlier definition that also refers to T optionally: the two uses share one
     Option<T> node and the cycle breaker boxes the property itself (Box<Option<T>>) *)
  [id |-> "recursive-shared", extra |-> ("Chain" :> SObj(Props1("head", SRef("T")), {})), props |-> <<
     P("v", SInt, TRUE, <<JInt(1)>>, ""),
     P("next", SRef("T"), FALSE, <<JObj1("v", JInt(2))>>, "") >>],
  (* a property whose inline object schema has its own type-level default and members with
     non-intrinsic defaults (the defaults module must provide their helper functions) *)
  [id |-> "inline-default", extra |-> << >>, props |-> <<
     P("v", SInt, TRUE, <<JInt(1)>>, ""),
     P("in", With(SObj(Props2("flag", With(SBool, "default", JBool(TRUE)), "n", With(SInt, "default", JInt(5))), {}),
                  "default", JObj1("flag", JBool(FALSE))), FALSE, <<JObj1("n", JInt(1))>>, "") >>],
  [id |-> "all-default", extra |-> << >>, props |-> <<
     P("m", SMap(SInt), FALSE, <<JObj1("k", JInt(1))>>, ""),
     P("f", With(SBool, "default", JBool(TRUE)), FALSE, <<JBool(FALSE)>>, "") >>] >>

Desc(s) == [props |-> [i \in DOMAIN s.props |->
               [name |-> s.props[i].name,
                hasDefault |-> ~s.props[i].req]]]

Init == \E k \in DOMAIN Structs :
          /\ st = Structs[k]
          /\ slots = NewSlots(Desc(Structs[k]))
          /\ vals = [p \in PropNames(Desc(Structs[k])) |-> 0]
          /\ hist = << >>

PropRec(p) == st.props[CHOOSE i \in DOMAIN st.props : st.props[i].name = p]

Set(p, vi) == /\ Len(hist) < MaxSteps
              /\ LET step == [field |-> p, bad |-> FALSE, vi |-> vi] IN
                   /\ slots' = ApplySet(slots, step) /\ vals' = ApplyVal(vals, step)
                   /\ hist' = Append(hist, step)
              /\ UNCHANGED st
SetBad(p) == /\ Len(hist) < MaxSteps /\ PropRec(p).badexpr # ""
             /\ LET step == [field |-> p, bad |-> TRUE, vi |-> 0] IN
                  /\ slots' = ApplySet(slots, step) /\ vals' = vals /\ hist' = Append(hist, step)
             /\ UNCHANGED st

Next == \E p \in PropNames(Desc(st)) :
           \/ \E vi \in DOMAIN PropRec(p).vs : Set(p, vi)
           \/ SetBad(p)
Spec == Init /\ [][Next]_vars

View == <<st.id, slots, vals>>

(* the design-level property of the machine itself: checked by TLC *)
Inv_LastWins == \A p \in PropNames(Desc(st)) : slots[p] = "unset" <=> ~\E i \in DOMAIN hist : hist[i].field = p

(* ---- case emission ------------------------------------------------------ *)
TSchema == SObj([p \in PropNames(Desc(st)) |-> PropRec(p).schema],
                { p \in PropNames(Desc(st)) : PropRec(p).req })
SetMembers == SelectSeq(SetToSeq(PropNames(Desc(st))), LAMBDA p : slots[p] = "ok")
ObjOfSlots == JObj(SetMembers, [i \in DOMAIN SetMembers |-> PropRec(SetMembers[i]).vs[vals[SetMembers[i]]]])
Steps == [i \in DOMAIN hist |->
            IF hist[i].bad THEN [field |-> hist[i].field, bad |-> TRUE, expr |-> PropRec(hist[i].field).badexpr, vi |-> 0]
            ELSE [field |-> hist[i].field, bad |-> FALSE, val |-> PropRec(hist[i].field).vs[hist[i].vi], vi |-> hist[i].vi]]

Emit == PrintT(<<"CASE", ToJson([fam |-> "C18", id |-> st.id, desc |-> Desc(st), hist |-> hist,
                                 settings |-> [builder |-> TRUE],
                                 calls |-> << [call |-> "add_root_schema", doc |-> [defs |-> ("T" :> TSchema) @@ st.extra]] >>,
                                 probes |-> << [kind |-> "builder", ty |-> [def |-> "T"], mode |-> "set", steps |-> Steps],
                                               [kind |-> "deser", ty |-> [def |-> "T"], val |-> ObjOfSlots],
                                               [kind |-> "builder", ty |-> [def |-> "T"], mode |-> "from_struct", val |-> ObjOfSlots] >>])>>)
=============================================================================
