SPECIFICATION Spec
CONSTANTS
  N = 3
  MaxEdges = 2
  Prefix = FALSE
  EdgeKinds <- Kinds4
INVARIANT Emit
CHECK_DEADLOCK FALSE
