SPECIFICATION Spec
CONSTANTS
  N = 2
  MaxEdges = 2
  Prefix = FALSE
  EdgeKinds <- Kinds9
INVARIANT Emit
CHECK_DEADLOCK FALSE
