---------------------------- MODULE MC_TypeSpace ----------------------------
(* Design check of the implementation model TypeSpaceImpl: the constructive
   action AddCall preserves the index invariants and every step it takes is an
   instance of the step relation StepOK that the trace monitor Trace_TS demands
   of the real TypeSpace. *)
EXTENDS TypeSpaceImpl

VARIABLE prev, lastKeys
mcVars == <<tsiVars, prev, lastKeys>>

MCInit == TSIInit /\ prev = [nextId |-> 1, ents |-> << >>, nameIdx |-> << >>, refIdx |-> << >>, clean |-> TRUE]
                  /\ lastKeys = {}
MCNext == \E keys \in SUBSET Keys, k \in 0..2, ok \in BOOLEAN :
            /\ AddCall(keys, k, ok)
            /\ prev' = State
            /\ lastKeys' = keys
MCSpec == MCInit /\ [][MCNext]_mcVars

StepConforms == StepOK(prev, State, lastKeys)
StateConforms == StateDiag(State) = "ok"
(* history variables do not multiply states *)
View == tsiVars
=============================================================================
