SPECIFICATION Spec
CONSTANT MaxOpts = 1
INVARIANT Emit
CHECK_DEADLOCK FALSE
