------------------------------ MODULE MC_Excl ------------------------------
(***************************************************************************)
(* L3: the exclusivity analysis (module Exclusive, the model of util.rs     *)
(* all_mutually_exclusive) explored over every ordered pair, and a cube of *)
(* triples, of branch schemas from a pool that reaches every arm of the    *)
(* code: boolean schemas, single types and type lists, typed and untyped   *)
(* enums and constants, open / closed / tagged objects (one of which       *)
(* requires an undeclared property), arrays, tuples, fixed arrays with     *)
(* length bounds, pure allOf / anyOf / oneOf / not wrappers, titled        *)
(* wrappers, bare and decorated references.                                *)
(*                                                                         *)
(* Checked here by TLC for every state:                                    *)
(*   Sound - an answer "yes" is never given for branches that share a      *)
(*           candidate instance (the code comment's "we'd much prefer a    *)
(*           false negative than a false positive"); violations are        *)
(*           reported in the CASE line (unsound |-> TRUE) rather than      *)
(*           stopping the run, so all of them are listed;                  *)
(*   Symmetric - PX(a, b) = PX(b, a) (listed likewise).                    *)
(* Each CASE line is replayed into the real analysis through the hook      *)
(* verif_all_mutually_exclusive and into convert_any_of (Trace_Excl).      *)
(***************************************************************************)
EXTENDS Exclusive, Instances, Json

CONSTANT Tier

JS(cs) == JStr(cs)
EnumS(vals) == [type |-> "string", enum |-> vals]
Tag(v) == EnumS(<<JS(v)>>)
A == <<"a">>
B == <<"b">>

Defs == ("DObj" :> SObj(Props1("a", SInt), {"a"})) @@ ("DStr" :> SStr) @@ ("DEnumA" :> EnumS(<<JS(A)>>))
        @@ ("DAny" :> SAnyOf(<<SInt, SStr>>))

Pool == <<
  STrue, SFalse, SInt, SStr, SNum, SBool, SNull,
  [types |-> <<"string", "null">>], [types |-> <<"integer", "string">>], [types |-> <<"integer", "null">>],
  [types |-> <<"boolean">>],
  [enum |-> <<JInt(1)>>], [enum |-> <<JS(A)>>], [enum |-> <<JS(A), JNull>>], [enum |-> <<JInt(1), JS(B)>>],
  EnumS(<<JS(A)>>), EnumS(<<JS(B)>>), EnumS(<<JS(A), JS(B)>>),
  [type |-> "string", const |-> JS(A)], [const |-> JS(B)],
  [type |-> "integer", enum |-> <<JInt(1), JInt(2)>>],
  [type |-> "string", minLength |-> 1], [type |-> "string", format |-> "uuid"],
  SObj(Props1("a", SInt), {"a"}), SObj(Props1("b", SStr), {"b"}), SObj(Props1("a", SInt), {}),
  SObjClosed(Props1("a", SInt), {"a"}),
  SObj(Props2("a", SInt, "b", SStr), {}), SObj(Props2("a", SInt, "b", SStr), {"a", "b"}),
  SObj(Props1("a", SInt), {"b"}),
  SObj(Props2("t", Tag(A), "x", SInt), {"t"}), SObj(Props2("t", Tag(B), "x", SInt), {"t"}),
  SObj(Props2("t", SStr, "x", SInt), {"t"}), SObj(Props1("t", [const |-> JS(A)]), {"t"}),
  [type |-> "object"], SMap(SInt), Titled(SObj(Props1("a", SInt), {"a"}), "Named"),
  SArr(SInt), SArr(SStr), STuple(<<SInt, SStr>>), STuple(<<SInt, SStr, SBool>>), STuple(<<SStr, SStr>>),
  SFixed(SInt, 3), SFixed(SInt, 2),
  [type |-> "array", items |-> SInt, maxItems |-> 1], [type |-> "array", items |-> SStr, minItems |-> 2],
  SSet(SInt), [type |-> "array"],
  [type |-> "array", itemsList |-> <<SInt, SStr>>, minItems |-> 2, maxItems |-> 2, uniqueItems |-> TRUE],
  SAllOf(<<SObj(Props1("a", SInt), {"a"}), SObj(Props1("b", SStr), {"b"})>>),
  SAnyOf(<<SInt, SStr>>), SOneOf(<<SInt, SNull>>), ("not" :> SStr), ("not" :> [enum |-> <<JS(A)>>]),
  Titled(SAnyOf(<<SInt, SStr>>), "TitledSubs"),
  SAllOf(<<SRef("DObj")>>),
  SRef("DObj"), SRef("DStr"), SRef("DEnumA"), SRef("DAny"), Titled(SRef("DStr"), "TitledRef"),
  With(SRef("DStr"), "type", "string")
>>

SmallPool == << SInt, SNull, [types |-> <<"string", "null">>], EnumS(<<JS(A)>>), EnumS(<<JS(B)>>),
                SObj(Props1("a", SInt), {"a"}), SObj(Props1("a", SInt), {"b"}), STuple(<<SInt, SStr>>),
                SFixed(SInt, 3), With(SRef("DStr"), "type", "string"), SRef("DObj") >>

VARIABLE subs
Init == \/ \E i, j \in DOMAIN Pool : subs = <<Pool[i], Pool[j]>>
        \/ (Tier = "thorough" /\ \E i, j, k \in DOMAIN SmallPool : subs = <<SmallPool[i], SmallPool[j], SmallPool[k]>>)
        \/ (Tier = "quick" /\ \E i, j \in DOMAIN SmallPool : subs = <<SmallPool[i], SmallPool[j], SmallPool[1]>>)
        \/ \E i \in DOMAIN Pool : subs = <<Pool[i]>>
Next == UNCHANGED subs
Spec == Init /\ [][Next]_subs

(* a candidate valid for two distinct branches *)
Shared(ss) ==
    LET all == Flat([i \in DOMAIN ss |-> Inst(ss[i], Defs, 2)])
    IN SelectSeq(all, LAMBDA v : \E i, j \in DOMAIN ss : i < j /\ Valid(ss[i], v, Defs) /\ Valid(ss[j], v, Defs))

Emit ==
    LET m == AllX(subs, Defs)
        sh == Shared(subs)
        sym == Len(subs) # 2 \/
               LET ra == Res(subs[1], Defs) rb == Res(subs[2], Defs) IN
               ra[1] = "panic" \/ rb[1] = "panic" \/ PX(ra[2], rb[2]) = PX(rb[2], ra[2])
    IN PrintT(<<"CASE", ToJson([subs |-> subs, defs |-> Defs, model |-> m, route |-> AnyOfRoute(subs, Defs),
                                unsound |-> (m = "yes" /\ sh # << >>),
                                witness |-> IF sh # << >> THEN sh[1] ELSE [t |-> "na"],
                                symmetric |-> sym])>>)
=============================================================================
