SPECIFICATION Spec
CONSTANT Tier = "thorough"
INVARIANT Emit
CHECK_DEADLOCK FALSE
