SPECIFICATION Spec
CONSTANTS
  N = 3
  MaxEdges = 3
  EdgeKinds <- Kinds4
INVARIANT Emit
CHECK_DEADLOCK FALSE
