SPECIFICATION Spec
CONSTANTS
  N = 3
  MaxEdges = 3
  Prefix = FALSE
  EdgeKinds <- Kinds4
INVARIANT Emit
CHECK_DEADLOCK FALSE
