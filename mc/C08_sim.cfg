SPECIFICATION Spec
CONSTANTS
  MaxLen = 4
  PairLen = 3
INVARIANT Emit
CHECK_DEADLOCK FALSE
