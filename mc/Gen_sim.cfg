SPECIFICATION GenSpec
CONSTANTS
  MaxPool = 6
  MaxSteps = 9
INVARIANT Emit
CHECK_DEADLOCK FALSE
