------------------------------- MODULE MC_C15 -------------------------------
(***************************************************************************)
(* L3: option vectors for C15.  The state is an option vector under        *)
(* construction (one action per option of the front ends); every state is  *)
(* a case, run through the CLI (when expressible there, with each output   *)
(* mode) and through the macro.  Invalid invocations are separate initial  *)
(* states.  The implementation model of the crate-specifier parsers is     *)
(* judged by the contract in every state (MODEL-FINDING).                  *)
(***************************************************************************)
EXTENDS Frontends, Json

CONSTANT MaxOpts
VARIABLES o, n, invalid
vars == <<o, n, invalid>>

Base == [builder |-> FALSE, derives |-> << >>, map |-> "default", crates |-> << >>, unknown |-> "default",
         patch |-> FALSE, replace |-> FALSE, convert |-> FALSE]
CratePool == { [name |-> "extcrate", vers |-> "1.0.0", rename |-> "", digit |-> FALSE],
               [name |-> "extcrate", vers |-> "*", rename |-> "", digit |-> FALSE],
               [name |-> "extcrate", vers |-> "!", rename |-> "", digit |-> FALSE],
               [name |-> "extcrate", vers |-> "2.0.0", rename |-> "", digit |-> FALSE],
               [name |-> "extcrate", vers |-> "1.0.0", rename |-> "re_named", digit |-> FALSE],
               [name |-> "ext-crate2", vers |-> "1.0.0", rename |-> "", digit |-> TRUE],
               [name |-> "ext-crate2", vers |-> "1.0.0", rename |-> "other2", digit |-> TRUE] }
InvalidKinds == {"bad-crate-spec", "missing-input", "malformed-schema", "builder-and-no-builder"}

Init == \/ o = Base /\ n = 0 /\ invalid = ""
        \/ \E k \in InvalidKinds : o = Base /\ n = 0 /\ invalid = k
Step(o2) == invalid = "" /\ n < MaxOpts /\ o' = o2 /\ n' = n + 1 /\ UNCHANGED invalid
Next == \/ ~o.builder /\ Step([o EXCEPT !.builder = TRUE])
        \/ Len(o.derives) < 2 /\ \E d \in {"PartialEq", "Eq"} :
              (\A i \in DOMAIN o.derives : o.derives[i] # d) /\ (d = "Eq" => Len(o.derives) = 1)
              /\ Step([o EXCEPT !.derives = Append(@, d)])
        \/ o.map = "default" /\ Step([o EXCEPT !.map = "btree"])
        \/ Len(o.crates) = 0 /\ \E c \in CratePool : Step([o EXCEPT !.crates = <<c>>])
        \/ o.unknown = "default" /\ \E u \in {"generate", "allow", "deny"} : Step([o EXCEPT !.unknown = u])
        \/ ~o.patch /\ Step([o EXCEPT !.patch = TRUE])
        \/ ~o.replace /\ Step([o EXCEPT !.replace = TRUE])
        \/ ~o.convert /\ Step([o EXCEPT !.convert = TRUE])
Spec == Init /\ [][Next]_vars

Emit == PrintT(<<"CASE", ToJson([fam |-> "C15", o |-> o, invalid |-> invalid,
                                 settings |-> SettingsOf(o),
                                 cli |-> ExpressibleInCli(o), macro |-> invalid = "",
                                 model_cli_ok |-> ModelOK_Cli(o)])>>)
=============================================================================
