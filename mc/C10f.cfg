SPECIFICATION Spec
INVARIANT Emit
CHECK_DEADLOCK FALSE
