SPECIFICATION MCSpec
CONSTANTS
  Keys = {"A", "B"}
  Names = {"A", "X"}
  MaxId = 4
INVARIANT InvAllocBound
INVARIANT InvRefBound
INVARIANT InvNameIdxSound
INVARIANT InvRefIdxSound
INVARIANT InvNoDangling
INVARIANT InvNamedIndexed
INVARIANT StepConforms
INVARIANT StateConforms
CHECK_DEADLOCK FALSE
