------------------------------- MODULE MC_C14 -------------------------------
(***************************************************************************)
(* L3: settings assignments for C14.  The state is a settings vector under *)
(* construction (actions add a replacement, a patch, a conversion, a map   *)
(* type, a global derive, the builder); every state is a case over the     *)
(* same document, in which the target definition Tgt and the conversion    *)
(* schema {type: number} are used through every use-site kind.  The        *)
(* initial state (default settings) is the behavioural baseline.           *)
(***************************************************************************)
EXTENDS FamiliesE, Json

VARIABLE s   \* [replace, patch, convert, derive, builder : BOOLEAN, map : STRING]
Init == s = [replace |-> FALSE, patch |-> FALSE, convert |-> "none", derive |-> FALSE, builder |-> FALSE, map |-> "hash"]
Next == \/ ~s.replace /\ ~s.patch /\ s' = [s EXCEPT !.replace = TRUE]
        \/ ~s.patch /\ ~s.replace /\ s' = [s EXCEPT !.patch = TRUE]
        \/ s.convert = "none" /\ \E cv \in {"bare", "annotated"} : s' = [s EXCEPT !.convert = cv]
        \/ ~s.derive /\ s' = [s EXCEPT !.derive = TRUE]
        \/ ~s.builder /\ s' = [s EXCEPT !.builder = TRUE]
        \/ s.map = "hash" /\ \E m \in {"btree", "mymap"} : s' = [s EXCEPT !.map = m]
Spec == Init /\ [][Next]_s

Tgt == SObj(Props1("q", SInt), {"q"})
BoundedInt == [type |-> "integer", minimum |-> JInt(0), maximum |-> JInt(255)]
RefT == SRef("Tgt")
Hub == SObj(
    Props3("direct", RefT, "opt", RefT, "nul", SNullable(RefT))
 @@ Props3("arr", SArr(RefT), "tup", STuple(<<RefT, SInt>>), "mapv", SMap(RefT))
 @@ Props3("var", SRef("HubVar"), "nested", SObj(Props1("inner", RefT), {"inner"}), "merged", SAllOf(<<RefT, SObj(Props1("z", SInt), {})>>))
 @@ Props3("fmap", SMap(SInt), "anymap", SMap(STrue), "num", SNum)
 @@ Props3("numarr", SArr(SNum), "numopt", SNullable(SNum), "nummap", SMap(SNum))
 @@ Props3("numtup", STuple(<<SNum, SStr>>), "numdesc", With(SNum, "description", "annotated use"),
           "numdescarr", SArr(With(SNum, "description", "annotated item")))
 @@ Props3("keymap", [type |-> "object", propertyNames |-> [type |-> "string", pattern |-> "^a+$"], additionalProperties |-> STrue],
           "patmap", [type |-> "object", patternProperties |-> ("^a" :> STrue)],
           "keymapint", [type |-> "object", propertyNames |-> [type |-> "string", pattern |-> "^a+$"], additionalProperties |-> SInt])
 @@ Props2("odd", SRef("3d-point"), "oddarr", SArr(SRef("3d-point")))
 @@ Props3("byte", BoundedInt, "bytearr", SArr(BoundedInt), "otherbound", [type |-> "integer", minimum |-> JInt(0), maximum |-> JInt(1000)]),
    {"direct", "tup", "nested"})
HubVar == SOneOf(<< ExtVar("A", RefT), ExtVar("B", SInt), ExtVar("N", SNum) >>)
Other == SObj(Props3("s", SStr, "n", SInt, "m", SMap(SStr)), {"s"})
Col == EnumS(<<JS(<<"r">>), JS(<<"g">>)>>)
(* patch targets of every kind of named type: struct (Tgt), string enum (Col), constrained string,
   typed non-string enum, deny list, alias wrapper *)
Code == [type |-> "string", minLength |-> 1]
Lvl == [type |-> "integer", enum |-> <<JInt(1), JInt(2), JInt(3)>>]
NotAb == [type |-> "string", not |-> [enum |-> <<JS(<<"a">>), JS(<<"b">>)>>]]
Labels == SArr(SStr)
Holder == SObj(Props3("code", SRef("Code"), "lvl", SRef("Lvl"), "notab", SRef("NotAb")) @@ Props1("labels", SRef("Labels")), {"code"})
Defs == ("Tgt" :> Tgt) @@ ("Hub" :> Hub) @@ ("HubVar" :> HubVar) @@ ("Other" :> Other) @@ ("Col" :> Col)
        (* uses of the replaced definition in definitions converted after it: merged into an allOf,
           and as the type of a property *)
        @@ ("Zed" :> SAllOf(<<RefT, SObj(Props1("z", SInt), {})>>))
        @@ ("Zuse" :> SObj(Props1("t", RefT), {"t"}))
        (* a definition key that is not its own identifier (sanitised: X3dPoint) *)
        @@ ("3d-point" :> SObj(Props1("x", SInt), {"x"}))
        @@ ("Code" :> Code) @@ ("Lvl" :> Lvl) @@ ("NotAb" :> NotAb) @@ ("Labels" :> Labels) @@ ("Holder" :> Holder)

Settings ==
    [builder |-> s.builder, map |-> s.map]
    @@ (IF s.derive THEN [derives |-> <<"PartialEq">>] ELSE << >>)
    @@ (IF s.replace THEN [replace |-> [Tgt |-> [ty |-> "crate::support::ReplT", impls |-> << >>],
                                        X3dPoint |-> [ty |-> "crate::support::ReplT", impls |-> << >>]]] ELSE << >>)
    @@ (IF s.patch THEN [patch |-> [Tgt |-> [rename |-> "Renamed", derives |-> <<"Eq", "PartialEq">>],
                                    Code |-> [rename |-> "CodeR", derives |-> <<"Default">>],
                                    Lvl |-> [rename |-> "", derives |-> <<"Default">>],
                                    NotAb |-> [rename |-> "", derives |-> <<"Default">>],
                                    Labels |-> [rename |-> "LabelsR", derives |-> <<"Default">>],
                                    Col |-> [rename |-> "ColR", derives |-> << >>]]] ELSE << >>)
    @@ (IF s.convert # "none"
        THEN [convert |-> << [schema |-> IF s.convert = "bare" THEN SNum ELSE With(SNum, "description", "a number"),
                              ty |-> "crate::support::Num", impls |-> <<"Display">>],
                             (* a conversion whose schema carries numeric validation *)
                             [schema |-> BoundedInt, ty |-> "crate::support::ReplT", impls |-> << >>] >>] ELSE << >>)

ProbesFor(def, sch) == LET cs == Candidates(sch, Defs, 2) IN
    [j \in DOMAIN cs |-> [kind |-> "deser", ty |-> [def |-> def], val |-> cs[j], on |-> def]]

Emit == PrintT(<<"CASE", ToJson([fam |-> "C14", id |-> "hub", s |-> s, baseline |-> (s = [replace |-> FALSE, patch |-> FALSE,
                                      convert |-> "none", derive |-> FALSE, builder |-> FALSE, map |-> "hash"]),
                                 settings |-> Settings,
                                 calls |-> << [call |-> "add_root_schema", doc |-> [defs |-> Defs]] >>,
                                 probes |-> ProbesFor("Other", Other) \o ProbesFor("Col", Col)])>>)
=============================================================================
