SPECIFICATION Spec
CONSTANT MaxLen = 3
INVARIANT Emit
CHECK_DEADLOCK FALSE
