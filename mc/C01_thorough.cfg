SPECIFICATION Spec
CONSTANTS
  SettingsIdx = {1, 2, 3, 4, 5, 6}
  Modes = {"root", "refs", "root+type", "titled-root"}
INVARIANT Emit
CHECK_DEADLOCK FALSE
