SPECIFICATION Spec
CONSTANTS
  MaxLen = 3
  PairLen = 2
INVARIANT Emit
CHECK_DEADLOCK FALSE
