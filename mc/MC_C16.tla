------------------------------- MODULE MC_C16 -------------------------------
(***************************************************************************)
(* L3: call histories for C16.  The state is the history so far (a         *)
(* sequence of call-template names); every state is a case.  Templates     *)
(* include repeats of the same addition, shared sub-schemas, name hints    *)
(* and titles that do and do not coincide with existing definitions, a     *)
(* repeated definition key, a merged batch and a failing schema.           *)
(***************************************************************************)
EXTENDS SchemaLib, Json

CONSTANT MaxLen
VARIABLE hist

ObjA  == SObj(Props1("x", SInt), {"x"})
ObjA2 == SObj(Props1("x", SStr), {"x"})
ObjB  == SObj(Props2("a", SRef("A"), "n", SRef("B")), {"a"})
ObjC  == SObj(Props2("s", SStr, "inner", SObj(Props1("q", SInt), {})), {"s"})
ObjS  == Titled(SObj(Props2("p", SInt, "o", SStr), {"p"}), "S")
ObjU  == Titled(SObj(Props1("u", SArr(SStr)), {}), "U")
ObjNamedA == Titled(SObj(Props1("z", SInt), {"z"}), "A")
Inline == SObj(Props1("a", SInt), {})
Enum1 == Titled([type |-> "string", enum |-> << [t |-> "str", c |-> <<"r">>], [t |-> "str", c |-> <<"g">>] >>], "Colour")

NewtypeId == [type |-> "string", minLength |-> 1]
EnumCol == [type |-> "string", enum |-> << [t |-> "str", c |-> <<"r">>], [t |-> "str", c |-> <<"g">>] >>]

Ref(defs, atoms) == [call |-> "add_ref_types", defs |-> defs, atoms |-> atoms]
Typ(schema, hint, atoms) == [call |-> "add_type", schema |-> schema, hint |-> hint, atoms |-> atoms]
Root(root, defs, atoms) == [call |-> "add_root_schema", doc |-> [root |-> root, defs |-> defs], atoms |-> atoms]

(* atoms: the independent additions a call consists of ({} = not part of the
   batch-independence groups) *)
Tpl ==
  [ RA    |-> Ref(<< <<"A", ObjA>> >>, {"A"}),
    RC    |-> Ref(<< <<"C", ObjC>> >>, {"C"}),
    RAC   |-> Ref(<< <<"A", ObjA>>, <<"C", ObjC>> >>, {"A", "C"}),
    RCA   |-> Ref(<< <<"C", ObjC>>, <<"A", ObjA>> >>, {"A", "C"}),
    RAB   |-> Ref(<< <<"A", ObjA>>, <<"B", ObjB>> >>, {}),
    RA2   |-> Ref(<< <<"A", ObjA2>> >>, {}),
    TS    |-> Typ(ObjS, "", {"S"}),
    TU    |-> Typ(ObjU, "", {"U"}),
    TE    |-> Typ(Enum1, "", {"Colour"}),
    TRefA |-> Typ(SRef("A"), "", {}),
    TVecA |-> Typ(SArr(SRef("A")), "", {}),
    THintA|-> Typ(SObj(Props1("x", SInt), {"x"}), "A", {}),
    TTitleA |-> Typ(ObjNamedA, "", {}),
    TInline |-> Typ(Inline, "", {}),
    THintN  |-> Typ(Inline, "fresh", {}),
    (* a newtype definition and an enum definition, re-added by hint, by title and by reference *)
    RN    |-> Ref(<< <<"Id", NewtypeId>> >>, {"Id"}),
    RE    |-> Ref(<< <<"Col", EnumCol>> >>, {"Col"}),
    THintId |-> Typ(NewtypeId, "Id", {}),
    TTitleId |-> Typ(Titled(NewtypeId, "Id"), "", {}),
    TRefId |-> Typ(SRef("Id"), "", {}),
    THintCol |-> Typ(EnumCol, "Col", {}),
    TTitleCol |-> Typ(Titled(EnumCol, "Col"), "", {}),
    (* definitions that convert to an unnamed type (array) or are a bare alias: rendered as
       newtype wrappers; re-added by a coinciding name hint, by title and by reference *)
    RL    |-> Ref(<< <<"L", SArr(SStr)>>, <<"Al", SRef("L")>> >>, {"L", "Al"}),
    THintL |-> Typ(SObj(Props1("k", SStr), {"k"}), "L", {}),
    THintAl |-> Typ(SObj(Props1("k", SStr), {"k"}), "Al", {}),
    TTitleL |-> Typ(Titled(SArr(SStr), "L"), "", {}),
    (* two more titled roots, one referring to itself through "#": every titled root registers the
       reference key of the root, so a later root re-uses a key an earlier call registered *)
    ROOTA |-> Root(Titled(SObj(Props1("w", SInt), {}), "Alpha"), << >>, {"Alpha"}),
    ROOTB |-> Root(Titled(SObj(Props2("v", SInt, "next", SRef("#")), {"v"}), "Beta"), << >>, {"Beta"}),
    (* a batch with a containment cycle, then later batches / additions that reach it *)
    RCYC  |-> Ref(<< <<"Node", SObj(Props2("v", SInt, "next", SRef("Node")), {"v"})>> >>, {"Node"}),
    RUSE  |-> Ref(<< <<"Holder", SObj(Props1("n", SRef("Node")), {})>> >>, {}),
    TRefNode |-> Typ(SRef("Node"), "", {}),
    (* an untagged union of references to string enums: its conversions (FromStr, Display) are decided
       when it is finalised, which must not depend on later, unrelated additions *)
    RCH   |-> Ref(<< <<"Choice", SOneOf(<<SRef("Left"), SRef("Right")>>)>>,
                     <<"Left", [type |-> "string", enum |-> << [t |-> "str", c |-> <<"l">>] >>]>>,
                     <<"Right", [type |-> "string", enum |-> << [t |-> "str", c |-> <<"r">>] >>]>> >>, {"Choice"}),
    ROOT  |-> Root(Titled(SObj(Props1("a", SRef("A")), {}), "Root"), [A |-> ObjA], {}) ]

Names == DOMAIN Tpl

Init == hist = << >>
Next == Len(hist) < MaxLen /\ \E t \in Names : hist' = Append(hist, t)
Spec == Init /\ [][Next]_hist

(* batch-independence group: histories made only of independent additions,
   each atom added exactly once, belong to the group named by their atom set *)
AtomSeq == [i \in DOMAIN hist |-> Tpl[hist[i]].atoms]
Independent ==
    /\ Len(hist) > 0
    /\ \A i \in DOMAIN hist : AtomSeq[i] # {}
    /\ \A i, j \in DOMAIN hist : i # j => AtomSeq[i] \cap AtomSeq[j] = {}
Group == IF Independent THEN UNION { AtomSeq[i] : i \in DOMAIN hist } ELSE {}

Emit == PrintT(<<"CASE", ToJson([hist |-> hist,
                                 calls |-> [i \in DOMAIN hist |-> Tpl[hist[i]]],
                                 group |-> Group])>>)
=============================================================================
