SPECIFICATION Spec
CONSTANT MaxComp = 3
INVARIANT Emit
CHECK_DEADLOCK FALSE
