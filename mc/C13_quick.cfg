SPECIFICATION Spec
CONSTANT MaxComp = 2
INVARIANT Emit
CHECK_DEADLOCK FALSE
