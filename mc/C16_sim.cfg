SPECIFICATION Spec
CONSTANT MaxLen = 6
INVARIANT Emit
CHECK_DEADLOCK FALSE
