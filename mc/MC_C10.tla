------------------------------- MODULE MC_C10 -------------------------------
(***************************************************************************)
(* L3: bounded instance for C10.  The state is an integer schema under     *)
(* construction; every reachable state is a case (a partial schema is a    *)
(* schema).  Actions add one keyword.  TLC's distinct-state count is the   *)
(* number of schemas enumerated.  For every state the implementation model *)
(* IntSelect!Choose is judged by the C10 contract (MODEL-FINDING when it   *)
(* fails) and one CASE line is printed for replay into the real code.      *)
(***************************************************************************)
EXTENDS IntSelect, TLC, Json

CONSTANTS Offs,        \* offsets used for bound / default / probe points
          BoundSets,   \* allowed sets of bound keywords
          DefBoundSets \* bound sets under which a default is also enumerated

VARIABLE s

OffsQuick == {-1, 0, 1}
OffsThorough == {-2, -1, 0, 1, 2}
BoundSetsQuick == {{}, {"min"}, {"max"}, {"emin"}, {"emax"}, {"min", "max"},
                   {"min", "emin"}, {"max", "emax"}}
BoundSetsThorough == BoundSetsQuick \cup {{"emin", "emax"}, {"min", "emax"}, {"emin", "max"}}
DefBoundSetsQuick == {{}, {"min"}, {"max"}}
DefBoundSetsThorough == {{}, {"min"}, {"max"}, {"emin"}, {"emax"}, {"min", "max"}}

Pts == Points(Offs)
FmtPool == {"int8", "uint8", "int16", "uint16", "int", "int32", "uint", "uint32",
            "int64", "uint64", "unknown-format"}
BoundKeys == {"min", "max", "emin", "emax"}

Bounds(S) == DOMAIN S \cap BoundKeys

Consistent(S) ==
    /\ Bounds(S) \in BoundSets
    /\ (Has(S, "def") => Bounds(S) \in DefBoundSets /\ ~Has(S, "mult") /\ ~Has(S, "split"))
    /\ (Has(S, "split") => ~Has(S, "mult"))
    /\ (Has(S, "min") /\ Has(S, "max") => Le(S.min, S.max))

Ext(S, k, v) == (k :> v) @@ S

Init == s = << >>

AddFmt  == \E f \in FmtPool : ~Has(s, "fmt") /\ s' = Ext(s, "fmt", f)
AddBound(k) == \E p \in Pts : ~Has(s, k) /\ s' = Ext(s, k, p)
AddMult == ~Has(s, "mult") /\ s' = Ext(s, "mult", 2)
AddDef  == \E p \in Pts : ~Has(s, "def") /\ s' = Ext(s, "def", p)
(* the nullable spelling {"type": ["integer", "null"]}: same selection, same default validation
   (explored for the schemas that carry a default) *)
(* the same schema presented as allOf[{type, format}, {type, bounds}]: the conjunction admits the
   same integers, so the same contract applies to what the merge hands to the selection *)
AddSplit == /\ Has(s, "fmt") /\ Bounds(s) # {} /\ ~Has(s, "def") /\ ~Has(s, "mult") /\ ~Has(s, "split")
            /\ s' = Ext(s, "split", TRUE)
AddNul  == Has(s, "def") /\ ~Has(s, "nul") /\ s' = Ext(s, "nul", TRUE)

Next == /\ (AddFmt \/ AddBound("min") \/ AddBound("max") \/ AddBound("emin")
              \/ AddBound("emax") \/ AddMult \/ AddDef \/ AddNul \/ AddSplit)
        /\ Consistent(s')

Spec == Init /\ [][Next]_s

(* model-level verdict (L2 judged by L1) *)
ModelDiag(S) == LET c == Choose(S) IN C10_Diag(S, c.res, c.ty, Pts)

Emit == PrintT(<<"CASE", ToJson([s |-> s, predict |-> Choose(s), mdiag |-> ModelDiag(s)])>>)
=============================================================================
