SPECIFICATION Spec
CONSTANTS
  Tier = "quick"
INVARIANT Emit
CHECK_DEADLOCK FALSE
